import sys; sys.path.insert(0, "/verif")
from vf import impl, runner, esast as A
from vf.props import C01
import collections
impl.warm(); runner.quiet()
mc, pl = C01.make_cases_for("quick", 0)
seen = collections.Counter()
import itertools
for cid, prog in mc():
    if cid[0] == 'tiny': break
    text = A.render(prog)
    try:
        impl.compile_es(text)
    except Exception as e:
        k = (type(e).__name__, str(e)[:60])
        seen[k] += 1
        if seen[k] <= 2:
            sys.stdout.write(f"---- {k}\n{text}\n")
print(seen)
