import sys
sys_path_fix = __import__("sys").path.insert(0, "/verif")
from vf import impl
src = sys.argv[1]
c = impl.compile_es(src)
for r, ops in enumerate(c.routine_ops):
    print(r, c.routine_infos[r], c.named_coroutines[r])
    for op in ops: print('   ', op.offset, op.op_code.name, list(op.params))
