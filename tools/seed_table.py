#!/venv/bin/python
"""Development-time tool: rewrite the table of seeded changes in DESIGN.md (between the seeded-table markers) from
seeded/*/meta.json."""
import glob
import json
import os
import re

HERE = os.path.dirname(os.path.dirname(os.path.abspath(__file__)))


def key(d):
    m = re.match(r"C(\d+)-(\d+)", os.path.basename(d))
    return int(m.group(1)), int(m.group(2))


rows = ["| change | breaks | needs to manifest | checks run against it | first report |", "|---|---|---|---|---|"]
missed_first = []
for d in sorted(glob.glob(os.path.join(HERE, "seeded", "*")), key=key):
    m = json.load(open(os.path.join(d, "meta.json")))
    runs = "; ".join(f"{c}: {'VIOLATION' if r['exit'] == 1 else 'silent' if r['exit'] == 0 else 'rc=%s' % r['exit']} ({r['wall_s']:.0f} s)"
                     for c, r in m["checks_run"].items())
    first = ""
    for c, r in m["checks_run"].items():
        if r.get("first_violation"):
            first = f"{c.split(' ')[0]}: {r['first_violation'].get('kind')}"
            break
    need = m["needs_to_manifest"].replace("|", "\\|")
    if m.get("note"):
        need += " — *" + m["note"].replace("|", "\\|") + "*"
        missed_first.append(os.path.basename(d))
    rows.append(f"| {os.path.basename(d)} | {m['breaks_property']} | {need} | {runs.replace('|', chr(92) + '|')} | {first} |")
table = "\n".join(rows)
p = os.path.join(HERE, "DESIGN.md")
s = open(p).read()
a, b = "<!-- seeded-table-begin -->", "<!-- seeded-table-end -->"
assert a in s and b in s
s = s[:s.index(a) + len(a)] + "\n" + table + "\n" + s[s.index(b):]
open(p, "w").write(s)
print(len(rows) - 2, "seeded changes;", "with a note (missed at first or needing the thorough tier):", missed_first)
