#!/venv/bin/python
"""Development-time tool: print the markdown table of seeded changes (for DESIGN.md 8.5) from seeded/*/meta.json."""
import glob
import json
import os

HERE = os.path.dirname(os.path.dirname(os.path.abspath(__file__)))
print("| change | breaks | needs to manifest | checks run (exit) | first report |")
print("|---|---|---|---|---|")
for d in sorted(glob.glob(os.path.join(HERE, "seeded", "*"))):
    m = json.load(open(os.path.join(d, "meta.json")))
    runs = ", ".join(f"{c} {'VIOLATION' if r['exit'] == 1 else 'silent' if r['exit'] == 0 else 'rc=%s' % r['exit']} ({r['wall_s']:.0f} s)"
                     for c, r in m["checks_run"].items())
    first = ""
    for c, r in m["checks_run"].items():
        if r.get("first_violation"):
            first = f"{c}: {r['first_violation'].get('kind')}"
            break
    print(f"| {os.path.basename(d)} | {m['breaks_property']} | {m['needs_to_manifest']} | {runs} | {first} |")
