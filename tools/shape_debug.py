"""Development-time tool: decompile a G-ssb shape step by step (prints the graph after the passes)."""
import sys, traceback; sys.path.insert(0, "/verif")
from vf import impl, gen_ssb as GS, decomp
impl.warm()
import logging, os
if os.environ.get("DEBUG_LOG"): logging.basicConfig(level=logging.DEBUG)
else: logging.disable(logging.CRITICAL)
shape = eval(sys.argv[1])
rops, infos, coros = GS.materialize(shape, 0, info_variant=int(sys.argv[2]) if len(sys.argv) > 2 else 0)
print(decomp.describe(rops))
from explorerscript.ssb_converting import ssb_decompiler as D
from explorerscript.ssb_converting.decompiler.graph_building.graph_minimizer import SsbGraphMinimizer
from explorerscript.ssb_converting.decompiler.label_jump_to_resolver import OpsLabelJumpToResolver
from explorerscript.ssb_converting.decompiler.write_handlers.routine import RoutineWriteHandler
from explorerscript.source_map import SourceMapBuilder
d = D.ExplorerScriptSsbDecompiler(infos, rops, impl.coroutine_objects(coros), impl.PERF, impl.dungeon_mode_constants())
d.smb = SourceMapBuilder()
def dump(g):
    for gr in g.get_graphs():
        for v in gr.vs:
            print('   v', v.index, repr(v['op'])[:90], '->', [(e.target, e['flow_level'], 'else' if e['is_else'] else '', 'loop' if e['loop'] else '') for e in v.out_edges()])
try:
    resolver = OpsLabelJumpToResolver(d._routine_ops)
    d._routine_ops = list(resolver)
    for r in d._routine_ops:
        for op in r: print('  ', repr(op)[:120])
    g = SsbGraphMinimizer(d._routine_ops, True)
    for step in ['optimize_paths','build_branches','group_branches','invert_branches','build_and_group_switch_cases','group_switch_cases','build_switch_fallthroughs','build_loops','remove_label_markers']:
        getattr(g, step)()
        print('step ok', step)
        if '-v' in sys.argv: dump(g)
    dump(g)
    for r_id, (r_info, r_graph) in enumerate(zip(d._routine_infos, g.get_graphs())):
        RoutineWriteHandler(d, r_id, r_info, r_graph).write_content()
    print(d._output)
except BaseException:
    traceback.print_exc()
