import sys; sys.path.insert(0, "/verif")
from vf import impl, esast as A, gen_prog as G, gen_forms, reader
impl.warm()
import logging; logging.disable(logging.CRITICAL)
n = bad = 0
import itertools
for cid, prog in itertools.chain(gen_forms.form_programs(), G.programs(G.FULL, 2, 3, 0, G.SECOND_ROUTINES)):
    text = A.render(prog)
    try:
        p2 = reader.read_program(text)
    except Exception as e:
        if 'def 0 {\n}' in text: continue
        bad += 1
        if bad < 5: print("READ FAIL", type(e).__name__, e, text)
        continue
    n += 1
    k1 = tuple(r.key() for r in prog.routines) + tuple(m.key() for m in prog.macros)
    k2 = tuple(r.key() for r in p2.routines) + tuple(m.key() for m in p2.macros)
    if k1 != k2:
        bad += 1
        if bad < 5:
            print("KEY DIFF", text); print(k1); print(k2)
print("ok", n, "bad", bad)
