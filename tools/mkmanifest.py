#!/venv/bin/python
"""Regenerates /verif/MANIFEST.json from the table below (development-time tool)."""
import json
import os
import subprocess

HERE = os.path.dirname(os.path.dirname(os.path.abspath(__file__)))

CHECKS = {
    "C01": dict(
        category="model_checking",
        technique="explicit-state exploration of the product Ref(source AST) x Machine(compiled ops) for every program of a bounded exhaustive enumeration",
        text="Every program of G-prog (all statement skeletons up to the stated node count / nesting depth, x second-routine "
             "variants) and of G-forms is compiled by the real compiler; for every routine the complete synchronous product "
             "of the naive reference semantics and the SSB machine model is searched breadth first, so every path and every "
             "outcome of every test is covered, loops included. Within the bound the verdict is a coverage statement.",
        note="Trusted: vf/refsem.py as reading of docs/language_spec.rst; independence of test outcomes; alphabets as listed in "
             "DESIGN.md 1.3. Programs rejected by the compiler are counted, not reported.",
        design="2/C01",
    ),
    "C03": dict(
        category="exploration",
        technique="exhaustive enumeration of program / macro / SSB shapes; closure invariant evaluated on every compilation result",
        text="Every successful compilation of the bounded exhaustive families G-forms, G-prog, G-macro (ExplorerScript compiler) "
             "and of the SsbScript spelling of every G-ssb routine set (SsbScript compiler) is checked directly for the "
             "invariant: unique offsets, closed int jump targets in last position, no pseudo ops, equal table lengths.",
        note="The invariant is checked on the objects compile() returns; jump-carrying kinds are those of OPS_WITH_JUMP_TO_MEM_OFFSET.",
        design="2/C03",
    ),
    "C05": dict(
        category="model_checking",
        technique="exhaustive enumeration of acyclic macro call graphs x definition orders x file layouts; product Ref(inlined source) x Machine(compiled) explored per case",
        text="All labelled DAGs on up to 3 (quick) / 4 (thorough) macros, all definition orders, file layouts with imported "
             "macro files written to a scratch directory, plus 22 import-resolution layouts; the compiled routine is "
             "compared on every path with the source-level inlining of the reference semantics; every acyclic case must compile.",
        note="Trusted: the reference inliner in vf/refsem.py; parameter names distinct per macro.",
        design="2/C05",
    ),
    "C07": dict(
        category="exploration",
        technique="exhaustive enumeration of SSB routine sets up to an op bound; decompile-to-SsbScript / compile round trip compared structurally",
        text="All routine sets with <= 3 (quick) / 4 (thorough) ops in <= 2 routines over 10 op kinds with every jump target "
             "and split point, plus a parameter-type sweep, are printed by the SsbScript decompiler and compiled back; ops, "
             "parameters, jump targets (as routine/index) and routine tables must be equal.",
        note="String contents with backslashes or blank-led lines belong to C04 and are not used here.",
        design="2/C07",
    ),
    "C11": dict(
        category="model_checking",
        technique="breadth-first exploration of all call histories up to a depth bound (each in a fresh fork of the pristine process) with environment choices; invariant: every call returns its pristine / fresh-interpreter result",
        text="All histories of up to 2 (quick) / 3 (thorough) API calls over 18 operations chosen to collide on process-wide state "
             "(memo table, class-level lists, reused compiler object, raising calls, the CLI's op counter), under gc / heap-phase "
             "choices, plus long alternations; after every call the ops, text, serialised source maps or exception must equal the "
             "result of the same call alone, which in turn must equal two fresh interpreters; the input routine set must be "
             "structurally unchanged.",
        note="Graph id recycling is left to CPython's allocator under the explored gc / heap-phase choices.",
        design="2/C11",
    ),
    "C12": dict(
        category="model_checking",
        technique="stateless exploration of all thread schedules up to a preemption bound (iterative context bounding) of real compile()/convert() calls under a deterministic sys.monitoring scheduler, one fork per execution",
        text="2 (thorough: 3) real threads each run one real call; scheduling points are the cooperative replacement of "
             "cache_lock, every line of the shared memo functions, function entries of the graph passes and antlr4's shared "
             "DFA / context caches, from a cold cache; every schedule with <= 1 (thorough: 2) preemptions is executed and each "
             "call's result compared with its sequential result; failures are replayed twice; a free-running pass guards against "
             "hand-off artefacts.",
        note="Absence of a violation is relative to the chosen scheduling points; each explored schedule is a feasible GIL schedule.",
        design="2/C12",
    ),
    "C13": dict(
        category="exploration",
        technique="exhaustive enumeration of flat structured programs (all K-sequences of item variants); shape oracle on decompile(compile(p))",
        text="All sequences of K items over 49 item variants (K<=2 all, K=3 reduced; thorough K=3 all, K=4 reduced) are compiled "
             "and decompiled by the real code; the output must not be the SsbScript fallback, contain no jump statement and "
             "print every uniquely named operation exactly once.",
        note="menu/menu2 case headers are paired with message_SwitchMenu headers only (what the specification ties them to).",
        design="2/C13",
    ),
    "C02": dict(
        category="model_checking",
        technique="exhaustive enumeration of well-formed SSB routine sets and compiler-shaped programs; explicit-state exploration of Machine(x) x Machine(compile(decompile(x))), Ref(text) x Machine(x) and Ref(p) x Ref(decompile(compile(p)))",
        text="For every input of two bounded exhaustive families (compile output of G-prog programs with a terminator per routine; "
             "all well-formed G-ssb routine sets up to the op bound) the real decompiler's text must compile and three complete "
             "product searches (all paths, all outcomes, loops included) must find no distinguishing trace; routine tables equal.",
        note="Trusted: vf/reader.py over the repository's generated parser, vf/refsem.py. Genuine decompiler defects that remain "
             "(loops the loop pass does not recognise) are open known findings matched by exact case hash and failure kind.",
        design="2/C02",
    ),
    "C06": dict(
        category="exploration",
        technique="exhaustive enumeration of the C02 input families under a process-level watchdog; structural comparison of the fallback's recompilation",
        text="Every input of the C02 families is decompiled in a forked worker; the oracle is: an answer (str, SourceMap) within "
             "the watchdog limit, no exception, and if the text carries the is-ssb-script marker, compiling it with the "
             "ExplorerScript compiler reproduces the input op for op.",
        note="A hang is 'no answer within 10 s' (typical 1 ms), confirmed once in isolation.",
        design="2/C06",
    ),
    "C08": dict(
        category="exploration",
        technique="exhaustive enumeration of programs x layouts and macro call graphs x file layouts; op<->AST relation from the explored product Ref x Machine; positional oracle on every source map entry",
        text="For every compiled program of G-forms/G-prog in four layouts and every G-macro case, the relation between emitted ops "
             "and AST nodes obtained from the complete product search is used to check each source map entry against the "
             "position recorded by the renderer: statement/condition/header start, macro file, macro name, call site, return "
             "address bounds, contributing files, position marks.",
        note="Ops the relation cannot attribute (unreachable code, glue jumps) only need to point at a statement start.",
        design="2/C08",
    ),
    "C09": dict(
        category="exploration",
        technique="exhaustive enumeration of the C02 input families plus multi-line string placements; entries checked against the text and against the compile-time map of the recompiled text through the explored product relation",
        text="For every input where C02 holds, every entry of the decompile-time source map (both decompilers) must be keyed by an "
             "input offset, sit at the first non-blank of a line, and agree in line with the compile-time map entry of the op "
             "that the product relation Machine(x) x Machine(compile(text)) relates it to; every related op has an entry.",
        note="Jump ops and non-first members of a || group need no entry; entries of Jump ops are not position-checked.",
        design="2/C09",
    ),
    "C14": dict(
        category="exploration",
        technique="exhaustive enumeration of well-typed source maps x all 4051 injective partial offset mappings 0..4->0..5 against a reference model",
        text="All source maps over a small alphabet of entries (and maps produced by the compiler and both decompilers) are "
             "serialised and read back: fields compared one by one, ==, idempotent re-serialisation; rewrite_offsets is compared "
             "with a ten-line reference for every map of a reduced family under every injective partial mapping.",
        note="Tuples and lists are identified after JSON; an unspecified return address (no later op survives) is not compared.",
        design="2/C14",
    ),
    "C04": dict(
        category="exploration",
        technique="exhaustive enumeration of parameter values x printing contexts (print->parse round trip through both decompilers) and of literal spellings against an independent evaluation of the documented rules",
        text="All strings up to a length bound over {a, blank, newline, both quotes, backslash, n} (+ triple-quote atoms) in 10 "
             "printing contexts, all 16-bit integers, all 32768 fixed-point values k/256, constants, position marks and routine "
             "targets are printed by the real decompilers, compiled back and compared by value; all short single- and multi-line "
             "literals, integer and decimal spellings are compiled and compared with the rules of the language specification.",
        note="Strings that need a backslash escape and an indentation-preserving form at once have no lossless literal: open known "
             "finding matched by exact value and context. Fixed point values are those from_float(k/256) builds.",
        design="2/C04",
    ),
    "C10": dict(
        category="exploration",
        technique="exhaustive enumeration of short token / character strings, of all single token-level corruptions of valid programs, of meaningless families x contexts and of all import digraphs on <= 3 files",
        text="Every text of the enumerated families is compiled by the real compiler; the outcome must be success, ParseError, "
             "SsbCompilerError or ValueError; members of the families the property lists as meaningless must raise and leave "
             "no output; import graphs with a reachable cycle, a missing file or routines in an imported file must be "
             "rejected and all others accepted.",
        note="The documented exception types are those of the compile() docstring.",
        design="2/C10",
    ),
    "C15": dict(
        category="exploration",
        technique="exhaustive enumeration of programs and documented JSON shapes driven through both command line entry points (in-process runpy emulation bound to real subprocesses on a subset)",
        text="For every program of the lexer-corner set, G-forms and G-prog the compile command's exit status, JSON structure and "
             "jump parameters (1-based target positions, targets known from the API) are checked, its output is fed to the "
             "decompile command and the result compared with the API round trip; the decompile command is run on every "
             "documented routine and argument type and on failing invocations.",
        note="The decompiler's own defects are C02's business: the CLI round trip is compared with the API round trip first.",
        design="2/C15",
    ),
    "C16": dict(
        category="exploration",
        technique="exhaustive single (thorough: adjacent double) separator deviations at every token boundary of each base program, plus alternative spellings; compiled ops compared with the base",
        text="For every base program (lexer-corner programs, a rotating slice of G-forms and G-prog) every token boundary is "
             "re-spelled with 11 separators (blanks, line breaks, comments, line joining) and with nothing where re-lexing "
             "allows; EOF/prefix variants, whole-text layouts and 11 alternative literal spellings; ops, jump structure, routine "
             "tables and position-mark values must equal the base's.",
        note="Token boundaries come from an independent tokenizer (vf/gen_layout.py).",
        design="2/C16",
    ),
    "C17": dict(
        category="exploration",
        technique="exhaustive enumeration of all strings up to a length bound over a 14-character alphabet (and 24 characters at a shorter bound), plus accepted program texts in 10 spellings",
        text="Every string of length <= 5 (quick) / 7 (thorough) over quotes, comment characters, newline, digits, sigils and "
             "backslash is lexed with the real Pygments lexer; the token texts must concatenate to the (Pygments-normalised) "
             "input; accepted programs must not produce Error tokens.",
        note="Pygments' own preprocessing (CR/CRLF to LF, BOM, appended newline) is applied to the expected text too.",
        design="2/C17",
    ),
    "C18": dict(
        category="exploration",
        technique="exhaustive enumeration of literal placements (subsets of 8 syntactic sites) x separator deviations at every token boundary inside and around the literals; differential oracle text-edit vs AST-edit",
        text="For every program and spelling the PositionMarkVisitor's listing must equal an independent token scan (order, start, "
             "end, name, tiles, half tiles); replacing exactly each reported span by the printed form of an edited mark must "
             "compile to the same ops as editing that literal in the generator's AST.",
        note="vf/gen_layout.scan is trusted as an independent reading of the lexical grammar.",
        design="2/C18",
    ),
}

PENDING = {}


def main():
    props = [json.loads(l)["id"] for l in open(os.path.join(HERE, "properties.jsonl"))]
    checks = []
    for pid in props:
        if pid not in CHECKS or pid in PENDING:
            continue
        c = CHECKS[pid]
        checks.append({
            "property_id": pid,
            "quick_cmd": f"./check {pid} --tier quick",
            "thorough_cmd": f"./check {pid} --tier thorough",
            "evidence_file": f"/verif/evidence/{pid}.json",
            "replay_cmd_template": f"./check {pid} --replay {{path}}",
            "engine": "vf",
            "level_claimed": {"category": c["category"], "text": c["text"], "design_ref": c["design"]},
            "level_note": c["note"],
            "technique": c["technique"],
        })
    na = [{"property_id": pid, "reason": PENDING.get(pid, "check not built yet in this session (planned, see DESIGN.md section 2)")}
          for pid in props if pid not in CHECKS or pid in PENDING]
    try:
        commits = subprocess.run(["git", "-C", "/repo", "log", "--format=%h %s", "c8fefe7..HEAD"],
                                 capture_output=True, text=True).stdout.strip().splitlines()
    except Exception:
        commits = []
    manifest = {
        "version": 1,
        "setup_cmd": "/venv/bin/python -c \"import sys; sys.path.insert(0, '/repo'); import explorerscript, igraph, antlr4, pygments\"",
        "hooks": {
            "guard": "TECH_TICKS_EXPLORERSCRIPT_VERIF",
            "enable": "no source hooks exist: the checks import /repo's working tree directly and instrument it at run time "
                      "(module attribute substitution, sys.monitoring); the variable is exported by the checks but no source line reads it",
            "baseline_off_cmd": "cd /repo && /venv/bin/python -m pytest -ra -q -p no:cacheprovider --timeout=900 --continue-on-collection-errors",
            "source_commits": [],
            "add_only": True,
        },
        "engines": [{
            "name": "vf",
            "path": "/verif/vf",
            "serves_properties": [c["property_id"] for c in checks],
            "kind_free_text": "hand-written explicit-state explorer in Python: LTS product search (vf/lts.py), exhaustive input-shape "
                              "generators (vf/gen_*.py), history BFS and thread-schedule DFS, run on the real implementation in a "
                              "fork pool with watchdog (vf/runner.py)",
        }],
        "checks": checks,
        "not_applicable": na,
        "notes": "Genuine defects repaired in /repo as 'fix:' commits are listed in /verif/known_findings.json (fixed entries suppress nothing): "
                 + "; ".join(c for c in commits if " fix:" in c or c.split(" ", 1)[1].startswith("fix:")),
    }
    with open(os.path.join(HERE, "MANIFEST.json"), "w") as f:
        json.dump(manifest, f, indent=1)
    import jsonschema  # noqa
    schema = json.load(open("/root/.vp/MANIFEST.schema.json"))
    jsonschema.validate(manifest, schema)
    print("MANIFEST.json written,", len(checks), "checks,", len(na), "not applicable")


if __name__ == "__main__":
    main()
