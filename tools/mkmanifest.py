#!/venv/bin/python
"""Regenerates /verif/MANIFEST.json from the table below (development-time tool)."""
import json
import os
import subprocess

HERE = os.path.dirname(os.path.dirname(os.path.abspath(__file__)))

CHECKS = {
    "C01": dict(
        category="model_checking",
        technique="explicit-state exploration of the product Ref(source AST) x Machine(compiled ops) for every program of a bounded exhaustive enumeration",
        text="Every program of G-prog (all statement skeletons up to the stated node count / nesting depth, x second-routine "
             "variants) and of G-forms is compiled by the real compiler; for every routine the complete synchronous product "
             "of the naive reference semantics and the SSB machine model is searched breadth first, so every path and every "
             "outcome of every test is covered, loops included. Within the bound the verdict is a coverage statement.",
        note="Trusted: vf/refsem.py as reading of docs/language_spec.rst; independence of test outcomes; alphabets as listed in "
             "DESIGN.md 1.3. Programs rejected by the compiler are counted, not reported.",
        design="2/C01",
    ),
    "C03": dict(
        category="exploration",
        technique="exhaustive enumeration of program / macro / SSB shapes; closure invariant evaluated on every compilation result",
        text="Every successful compilation of the bounded exhaustive families G-forms, G-prog, G-macro (ExplorerScript compiler) "
             "and of the SsbScript spelling of every G-ssb routine set (SsbScript compiler) is checked directly for the "
             "invariant: unique offsets, closed int jump targets in last position, no pseudo ops, equal table lengths.",
        note="The invariant is checked on the objects compile() returns; jump-carrying kinds are those of OPS_WITH_JUMP_TO_MEM_OFFSET.",
        design="2/C03",
    ),
    "C05": dict(
        category="model_checking",
        technique="exhaustive enumeration of acyclic macro call graphs x definition orders x file layouts; product Ref(inlined source) x Machine(compiled) explored per case",
        text="All labelled DAGs on up to 3 (quick) / 4 (thorough) macros, all definition orders, file layouts with imported "
             "macro files written to a scratch directory, plus 22 import-resolution layouts; the compiled routine is "
             "compared on every path with the source-level inlining of the reference semantics; every acyclic case must compile.",
        note="Trusted: the reference inliner in vf/refsem.py; parameter names distinct per macro.",
        design="2/C05",
    ),
    "C07": dict(
        category="exploration",
        technique="exhaustive enumeration of SSB routine sets up to an op bound; decompile-to-SsbScript / compile round trip compared structurally",
        text="All routine sets with <= 3 (quick) / 4 (thorough) ops in <= 2 routines over 10 op kinds with every jump target "
             "and split point, plus a parameter-type sweep, are printed by the SsbScript decompiler and compiled back; ops, "
             "parameters, jump targets (as routine/index) and routine tables must be equal.",
        note="String contents with backslashes or blank-led lines belong to C04 and are not used here.",
        design="2/C07",
    ),
    "C13": dict(
        category="exploration",
        technique="exhaustive enumeration of flat structured programs (all K-sequences of item variants); shape oracle on decompile(compile(p))",
        text="All sequences of K items over 49 item variants (K<=2 all, K=3 reduced; thorough K=3 all, K=4 reduced) are compiled "
             "and decompiled by the real code; the output must not be the SsbScript fallback, contain no jump statement and "
             "print every uniquely named operation exactly once.",
        note="menu/menu2 case headers are paired with message_SwitchMenu headers only (what the specification ties them to).",
        design="2/C13",
    ),
}

PENDING = {}


def main():
    props = [json.loads(l)["id"] for l in open(os.path.join(HERE, "properties.jsonl"))]
    checks = []
    for pid in props:
        if pid not in CHECKS:
            continue
        c = CHECKS[pid]
        checks.append({
            "property_id": pid,
            "quick_cmd": f"./check {pid} --tier quick",
            "thorough_cmd": f"./check {pid} --tier thorough",
            "evidence_file": f"/verif/evidence/{pid}.json",
            "replay_cmd_template": f"./check {pid} --replay {{path}}",
            "engine": "vf",
            "level_claimed": {"category": c["category"], "text": c["text"], "design_ref": c["design"]},
            "level_note": c["note"],
            "technique": c["technique"],
        })
    na = [{"property_id": pid, "reason": PENDING.get(pid, "check not built yet in this session (planned, see DESIGN.md section 2)")}
          for pid in props if pid not in CHECKS]
    try:
        commits = subprocess.run(["git", "-C", "/repo", "log", "--format=%h %s", "c8fefe7..HEAD"],
                                 capture_output=True, text=True).stdout.strip().splitlines()
    except Exception:
        commits = []
    manifest = {
        "version": 1,
        "setup_cmd": "/venv/bin/python -c \"import sys; sys.path.insert(0, '/repo'); import explorerscript, igraph, antlr4, pygments\"",
        "hooks": {
            "guard": "TECH_TICKS_EXPLORERSCRIPT_VERIF",
            "enable": "no source hooks exist: the checks import /repo's working tree directly and instrument it at run time "
                      "(module attribute substitution, sys.monitoring); the variable is exported by the checks but no source line reads it",
            "baseline_off_cmd": "cd /repo && /venv/bin/python -m pytest -ra -q -p no:cacheprovider --timeout=900 --continue-on-collection-errors",
            "source_commits": [],
            "add_only": True,
        },
        "engines": [{
            "name": "vf",
            "path": "/verif/vf",
            "serves_properties": [c["property_id"] for c in checks],
            "kind_free_text": "hand-written explicit-state explorer in Python: LTS product search (vf/lts.py), exhaustive input-shape "
                              "generators (vf/gen_*.py), history BFS and thread-schedule DFS, run on the real implementation in a "
                              "fork pool with watchdog (vf/runner.py)",
        }],
        "checks": checks,
        "not_applicable": na,
        "notes": "Genuine defects repaired in /repo as 'fix:' commits are listed in /verif/known_findings.json (fixed entries suppress nothing): "
                 + "; ".join(c for c in commits if " fix:" in c or c.split(" ", 1)[1].startswith("fix:")),
    }
    with open(os.path.join(HERE, "MANIFEST.json"), "w") as f:
        json.dump(manifest, f, indent=1)
    import jsonschema  # noqa
    schema = json.load(open("/root/.vp/MANIFEST.schema.json"))
    jsonschema.validate(manifest, schema)
    print("MANIFEST.json written,", len(checks), "checks,", len(na), "not applicable")


if __name__ == "__main__":
    main()
