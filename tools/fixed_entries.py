#!/venv/bin/python
"""Development-time tool: rewrites the 'fixed' list of known_findings.json with the current commit hashes."""
import json
import os
import subprocess

HERE = os.path.dirname(os.path.dirname(os.path.abspath(__file__)))
FIXED = [
    ("C01", "fix: keep conditional jumps to the end of a routine",
     "`def 0 { switch ($V) { case 1: break; default: op(); } }` (also `while not (c) {..}` / `call @l; ..; @l;` at a routine end): strip_last_label turned branch/case/call ops that target the routine end into Return"),
    ("C01", "fix: don't merge a lone jump into negated block headers",
     "`if not (debug) { jump @x; }` went to @x when debug was set: lone-jump shortcut of _process_block ignored negated headers"),
    ("C01", "fix: case blocks falling through into a case that is only a jump",
     "`switch ($V) { case 1: b(); case 2: break; case 3: c(); }` ran c() after b(): a case body that is only a jump emits no op, so fall-through skipped it"),
    ("C01", "fix: a jump over a call or branch is not redundant",
     "`jump @l; call @l; @l;` (and `while (c) { call @l; @l; }`) lost the jump: LabelFinalizer treated call/branch ops as removable redundant jumps"),
    ("C01", "fix: don't drop the jump to the routine end after a label that is jumped to",
     "`while ($V == 0) { break_loop; }` looped forever: strip_last_label dropped the jump to the routine end after a label with exactly one jump to it"),
    ("C05", "fix: resolve macros in a topological order",
     "`macro a(){~b();~c();} macro b(){~c();} macro c(){..}` (54 of 574 cases with <=3 macros) was rejected with 'Macro c not found': resolution order was not a topological order"),
    ("C13", "fix: common-next-vertex search never followed any edge",
     "every if/switch whose branches are longer than one op came back as labels and jumps (5007 of 5291 flat programs): the common-next-vertex search iterated over the empty list it was filling"),
    ("C13", "fix: stale common-next-vertex cache when searching the end of a switch",
     "`switch ($V) { case 0: a(); break; } if ($A == 0) { } return;` lost its switch end or raised ValueError (60 of 5291 flat programs): stale edge-index keyed cache entry from build_branches reused by the switch end search"),
    ("C05", "fix: endless loop when a macro with position marks calls a macro of the same file",
     "`macro inner($p){op($p);} macro outer(){~inner(Position<'m',1,2>);} def 0 {~outer();}` never finished compiling: macro.build iterated over position-mark lists it shares with the source map builder it appends to"),
    ("C06", "fix: fall back to SsbScript on every decompiler failure, not only AssertionErrors",
     "routines [[Return],[Jump->it]] (KeyError), [[Jump->Return],[Return]] (TypeError), [op, Case->op, Jump->Case] (ValueError) escaped convert() instead of producing the fallback (547 of 58k inputs)"),
    ("C06", "fix: stop writing flow graphs with loops the writers can't leave",
     "[BranchDebug->Jump, Return, Jump->BranchDebug] and [op, Jump->J2, BranchDebug->J1, J2: Jump->op]: convert() recursed to the recursion limit (40 s, RecursionError) or never returned (61+ hangs)"),
    ("C02", "fix: keep the jump a routine starts with",
     "[Jump->End, op, End] decompiled to `op(); return;`; a leading `while (c) {a();}` ran its body once unconditionally: remove_label_markers deleted the entry jump as unreachable"),
    ("C02", "fix: keep labels that are only jumped to from other routines",
     "routines [[Jump->the End],[End]]: `jump @label_0` without the label in the other routine, text rejected"),
    ("C02", "fix: don't optimize away the label a routine starts with",
     "`while ($A == 1) { op1(); continue; } end;` decompiled to text that runs the body before the first check: optimize_paths removed the entry label + jump"),
    ("C02", "fix: continue after a call with the op behind it, not with the called label",
     "`@l; call @l; hold;` decompiled to `@label_0; call @label_0; jump @label_0;` (hold lost)"),
    ("C02", "fix: fall back to SsbScript when a jump to a label was written but not the label",
     "routines [[Jump->2nd End],[End, End]] and [Call->the Jump, Jump->the Call]: text referenced a label that was never written and did not compile (175 of 55k inputs); now the exact fallback"),
    ("C13", "fix: cases that only break were printed as a jump when another case of the switch does the same",
     "`switch ($V) { case 1: break; case 2: b(); break; case 3: break; }` came back as `case 1: default: @switch0_2; break; .. case 3: jump @switch0_2;` (14214 of 152k thorough programs, 388 of 6635 quick): a case edge to the switch end that is reached a second time was written as label + jump"),
    ("C13", "fix: a default that shares its block with a case was printed as a jump into that case",
     "`switch ($V) { case 1: a(); break; case 2: default: b(); break; }` came back as `case 2: @label_1; b(); break; default: jump @label_1;` (15406 of 152k thorough programs): the default's jump op was not followed when the switch was built, so default and case had different targets"),
    ("C02", "fix: the code after an if was lost when its if-branch was written as a jump",
     "`before(); if ($V0 == 0) { between(); after(); hold; end; } elseif (..) { if not (..) { jump @between; } } else { return; }`-shaped graphs: the path from the inner if's else edge to after() was dropped, the routine returned instead (most of the former C02-loops-misread list: 18.9k of 796k thorough inputs, and all 168 of C02-negated-leaving-elseif-before-jump-only-part)"),
    ("C02", "fix: a call was continued with the called label when both edges have the same flow level",
     "[@0: Call->@0, Jump->Return, Return] decompiled to `@label_0; call @label_0; jump @label_0;`: the Return was lost"),
    ("C02", "fix: case and branch ops that belong to no switch or if were written as jump, continue or break_loop",
     "[Jump->Case, Case 0->itself, Jump->Case] decompiled to `forever { continue; }`, the Case test disappeared; now the exact SsbScript fallback"),
    ("C02", "fix: the label a routine starts with was removed when the only jump to it is the single or an unreachable one",
     "[Jump->op2, BranchDebug->the entry Jump, op2, Jump->BranchDebug] started with the if instead of op2(); [Jump->J2, Jump->entry (unreachable), op2, J2: Jump->End, End] decompiled to `op2(); return;` (the former C02-entry-jump-targeted list, 42 inputs, and ~1500 cyclic ones)"),
    ("C02", "fix: a with-block was written around a message switch, which the grammar rejects",
     "[lives 1, message_SwitchTalk $V40, CaseText.., DefaultText.., End] (compiled from `with (actor 1) { jump @l; } @l; message_SwitchTalk ($V40) {..}`) decompiled to `with (actor 1) { message_SwitchTalk (..) {..} }`: ParseError when compiled again (the former C02-ctx-before-block entry); now the exact fallback"),
    ("C02", "fix: the common-next-vertex search forgot which edge first led a path to a vertex",
     "`forever { switch ($A) { case 1: a(); break; case 2: b0(); b1(); b2(); b3(); break; } }` (and a switch in front of a loop whose cases differ in length by the loop length) decompiled with `case 1: a();` without break, a() fell through into case 2 (21 of the 990 G-lengths programs; first seen by a sub-agent's random programs, the generators had no branch bodies longer than 2 ops next to a loop)"),
    ("C04", "fix: form feeds, vertical tabs, NEL, U+2028 and other separators in strings were read as new lines",
     "string 'a\\u2028b\\nc' (likewise \\x0b \\x0c \\x1c \\x85 \\u2029 next to a newline) printed as a multi-line literal came back as 'a\\nb\\nc' (str.splitlines() in the reader); 'a\\x0c' was printed as a single-line literal, which the grammar rejects (8.9k of 10.8k new failures when the other white-space characters were added to C04's alphabet)"),
    ("C08", "fix: position marks of a macro were recorded for every other macro of the same file",
     "`macro a() { x(Position<'A', 1, 2>); } macro b() { y(); } def 0 { ~b(); }`: the mark 'A' was recorded under macro b although no op carries it (213 of the G-macro cases once never-called macros with marks were generated; pointed out by a sub-agent as an observation on the unchanged tree)"),
    ("C08", "fix: the Return appended behind a macro call repeated the call position and returned in front of itself",
     "`macro w() { while not (debug) { x(); } } def 0 { ~w(); }`: the appended Return@4 got the macro entry of op 1 including its call position and return address 4 (with a second routine in the file: Return@5, return address 4); 158 G-macro cases once routines ending in an expansion whose body ends in a negated while were generated. The copy was introduced by this session's first repair of strip_last_label"),
    ("C13", "fix: an operation with a context fell back to SsbScript when its opcode can also start a switch",
     "`def 0 { message_Menu<actor 1>(1, 2); hold; }` (also ProcessSpecial, message_SwitchMenu, main_EnterAdventure; inline context or with-block) decompiled to the SsbScript fallback (792 of 10.4k flat programs once such opcode names were used in plain statements; pointed out by a sub-agent as an observation on the unchanged tree)"),
    ("C16", "fix: ValueError for position mark coordinates written without a digit in front of the point",
     "`def 0 { a(Position<'m', -.5, 1>); }` raised ValueError (invalid literal for int(): '-') while the spellings `-0.5` and `-00.5` of the same decimal compile (one of the 8 hand-written spelling groups; pointed out by a sub-agent as an observation on the unchanged tree)"),
    ("C02", "fix: conditions and bit assignments were written in a form that compiles to another op or parameter",
     "[pre, BranchDebug 2 -> End, a, End] decompiled to `if not ( debug )` (recompiles with parameter 1); [BranchPerformance 3 -1 ..] likewise; [flag_CalcBit $PERFORMANCE_PROGRESS_LIST 3 1] decompiled to `$PERFORMANCE_PROGRESS_LIST[3] = 1;` (recompiles to flag_SetPerformance), BranchBit on that list to the spelling of BranchPerformance (16 of the 35 sets of family V; pointed out by a sub-agent as an observation on the unchanged tree)"),
    ("C01", "fix: the jump behind a label that is only jumped to from another routine was removed as unreachable",
     "`def 0 { r0_a(); jump @X; } def 1 { return; @X; jump @E; r1_skipped(); @E; }` compiled routine 1 to [Return, r1_skipped]: routine 0 ran r1_skipped() instead of stopping (12 of the 180 G-cross programs: jump / call / conditional jump x a `return` or `hold` in front of the label; pointed out by a sub-agent as an observation on the unchanged tree)"),
    ("C05", "fix: imports of names that start with a dot were taken for relative paths, imports of directories raised IsADirectoryError",
     "`import \".hidden/lib.exps\";` with the file under the second lookup path was resolved against the importing file (wrong file / not found); `import \"./sub\";` where sub is a directory raised IsADirectoryError (5 of the 34 import cases once names with a leading dot and directories were added; pointed out by sub-agents)"),
    ("C10", "fix: SsbScript texts could raise IndexError, TypeError or AttributeError",
     "`//?: is-ssb-script: true` + `def 0 for { a(); }` (TypeError), `def 0 { a({}); }` (AttributeError), `def -1 { a(); }` (IndexError): 12 of the single-token corruptions of two SsbScript texts"),
    ("C10", "fix: routines in an imported SsbScript file were accepted",
     "an imported file that starts with the is-ssb-script marker and contains `def 0 { .. }` was accepted, its routines dropped"),
    ("C10", "fix: deeply nested scripts raised RecursionError, and only if nothing had been decompiled before",
     "`def 0 { if (debug) { ` x 121 (also forever / switch) raised RecursionError; with the decompiler imported the limit was 10000 and the text compiled: the result depended on the history of the process (C11)"),
    ("C10", "fix: a jump or call to an undefined label was accepted in a macro that is never called",
     "`macro m() { a(); jump @nowhere; } def 0 { b(); }` compiled and produced output"),
    ("C11", "fix: the decompiled text depended on the memory address of the flow graph",
     "a while loop with four switches that each have a `break_loop` case (input d_many_breaks): label names `@switch0_15` / `@switch0_17` differed between runs with other graphs alive and between fresh interpreters (108 of 2648 histories)"),
    ("C11", "fix: strings in the header of a switch over an operation and in menu2() cases were printed with a stale indentation",
     "history [SsbScript decompile of X, ExplorerScript decompile of X] for X with `switch (ProcessSpecial('first line\\nsecond line', 1, 2))`: the header string was indented as the SsbScript decompiler had left it"),
    ("C15", "fix: the 'return' added at the end of a routine was also written inside a message switch or with-block",
     "`def 0 { a(); message_SwitchTalk ($K) { case 1: 'x' default: 'y' } }` (no terminator) through the compile and the decompile command came back as `message_SwitchTalk ($K) { .. return; } return;`, a ParseError (204 of 19.8k programs once the check compiled the round-trip text in every case, not only when CLI and API text differ)"),
    ("C15", "fix: a call at the very end of a routine was followed by a jump to the called label",
     "`def 0 { @L0; call @L0; }` came back as `@label_0; call @label_0; jump @label_0;` (7 programs)"),
    ("C09", "fix: jump ops were mapped although no jump statement was written for them, elseif headers were mapped to the closing brace",
     "[foo, Jump -> bar, bar, Return]: the Jump got the entry (3, 4) = the line `@label_0;`; in larger sets the entry pointed at another op's statement, behind the end of a line or into `default:`; `} elseif ( .. ) {` headers had the column of the brace. The check had exempted both (17.9k of 74k inputs once the exemptions were dropped; a sub-agent pointed at them)"),
    ("C02", "fix: a case whose block ends with a jump to the end of the switch that is still in the graph lost its break",
     "[Switch $V, Case 1 -> C, message_Talk, Jump -> E, C: Call -> message_Talk, Jump -> E, E: Return] decompiled to `case 1: call @label_2; default: @label_2; message_Talk(1); break;` (first set of family R; pointed out by a sub-agent)"),
    ("C04", "fix: position mark coordinates like 1.05 were accepted and read as 1.5",
     "`Position<'m', 1.05, 7>` (also 1.005, .05, -3.0500) compiled to the half tile 1.5 in both compilers while 1.25 is rejected (4 of the 25 coordinate spellings; pointed out by three sub-agents)"),
    ("C02", "fix: flag_CalcValue with the assign operator and BranchValue with == were written in the spelling of flag_Set and Branch",
     "[flag_CalcValue $V 0 5] decompiled to `$V = 5;` (recompiles to flag_Set), [BranchValue $V 2 5 ..] to `if ( $V == 5 )` (recompiles to Branch): 2 of the 27 operator sweeps of family V"),
    ("C02", "fix: message switches whose default is not the last case were written with the cases in another order",
     "[message_SwitchTalk $M, DefaultText d, CaseText 1 t, Return] came back with the default last; with two DefaultText ops the text was rejected (two sets of family R)"),
    ("C08", "fix: the position of a macro call was lost when the first opcode of the call was removed",
     "`macro m() { jump @a; @a; foo(); } def 0 { ~m(); end; }`: the only emitted op of the call had `called_in` null, the call position stood under the offset of the removed jump (1196 G-macro cases once macro bodies starting with a redundant jump were generated; pointed out by a sub-agent)"),
    ("C04", "fix: strings without a line break that can't be single line literals were printed as such when they start with a blank",
     "the string blank + backslash (also blank + form feed, blank + backslash + n ..) was printed as the single-line literal `' \\'`, a ParseError; it is printed as a one-line literal in triple quotes now, which is read as it stands (the former C04-backslash-and-indent list shrank from 1196 to the values with a line break)"),
    ("C15", "fix: a call that goes back to a label was turned into a forever loop that is never left",
     "`def 0 { op1(); @L0; call @L0; }` through the compile and the decompile command came back as `op1(); @label_0; forever { call @label_0; continue; }` (12 of 98.6k programs of the thorough tier)"),
    ("C15", "fix: a block that ends with a call was not closed",
     "`def 0 { @L0; while not ($V0 == 0) { } call @L0; }` came back as `@label_1; if ( $V0 == 0 ) { call @label_1; } jump @label_1;` (4 programs of the thorough tier)"),
    ("C02", "fix: dungeon mode values other than 0..3 were printed as the 'closed' constant",
     "`switch (dungeon_mode(D)) { case DMODE_OPEN: .. }` (or any constant / other number as case value or flag_SetDungeonMode value) decompiled to `case DMODE_CLOSE:` (476 of 55k inputs under seed rotation 2)"),
    ("C09", "fix: inserted break_loop/continue statements overwrote the source map entry of the op before them",
     "[op, Call->itself, End]: the entry of the Call pointed at the line of the inserted `break_loop;` (8865 of 55k inputs)"),
    ("C09", "fix: source map line of elseif headers",
     "the Branch of an `} elseif (..) {` header was mapped one line too low (2854 of 55k inputs)"),
    ("C08", "fix: source map entries of message switch cases point to the cases",
     "CaseText/DefaultText ops were mapped to the position of the message_Switch* keyword instead of their case (found by C09's cross-check against the compile-time map: 372 inputs)"),
    ("C14", "fix: source map entries compare by value",
     "SourceMap.deserialize(m.serialize()) == m was False for every non-empty map: SourceMapping had no __eq__"),
    ("C14", "fix: rewrite_offsets skipped macro return addresses of 0",
     "macro entry with return address 0 and mapping {2: 1}: address stayed 0 instead of 1 (truthiness test)"),
    ("C04", "fix: print strings in a form that survives being read again where one exists",
     "'C:\\new' came back as 'C:'+newline+'ew', 'a\\' did not parse, ' a\\n b' lost its indentation (1615 of 15.6k values x contexts): repr_string now picks the literal form that survives"),
    ("C04", "fix: multi line literals with an empty line before the closing quotes",
     "`\'\'\'a` + empty line + `\'\'\'` evaluated to 'a' instead of 'a'+newline (1074 of the multi-line literals with bodies <= 7): splitlines() drops the last empty line"),
    ("C04", "fix: escape quotes and newlines in the printed name of a position mark",
     "a position mark named it's was printed as Position<'it's', 1, 2.5>, which does not parse"),
    ("C10", "fix: routines in imported files were not rejected",
     "an imported file with `macro m() {..} def 0 { stray(); }` was accepted: the macros-only check re-parsed a consumed token stream and never saw a routine"),
    ("C10", "fix: IndexError for sources that only consist of meta attribute lines",
     "`//?: a: b` (103 of 30k short token strings) raised IndexError in parse_exps_meta_attributes"),
    ("C10", "fix: IndexError for routines that only consist of labels",
     "`def 0 { @l; }` raised IndexError in strip_last_label"),
    ("C10", "fix: IndexError for negative routine ids",
     "`def -1 { a(); }` raised IndexError in the routine visitor"),
    ("C10", "fix: AssertionError for routines that are not defined in the order of their ids",
     "`def 1 { a(); } def 0 { b(); }` raised AssertionError (ordering assert outside the try)"),
    ("C10", "fix: undocumented exception for a routine target that is neither an integer nor a constant",
     "`def 0 for performer 1.5 { a(); }` raised TypeError (compile() unwraps exception chains to their first member)"),
    ("C15", "fix: compile CLI prints jump targets as positions in the list of operations",
     "`if (debug) { a(); } b(); end;` printed [BranchDebug 1 3, Jump 5, a, b, End]: 5 is the internal offset of b (position 4), the decompile command jumped to End or failed with 'went past EOF' (36590 of 53k programs)"),
    ("C15", "fix: decompile CLI did not know the names of coroutines",
     "every JSON document with a COROUTINE routine failed with 'Unknown coroutine for: 0'"),
    ("C15", "fix: decompile CLI crashed on integer coordinates of position marks",
     "the documented `\"x\": 10` raised AttributeError: 'int' object has no attribute 'split'"),
    ("C11", "fix: read_routines of the decompile CLI module numbered operations across calls",
     "history [read_routines(doc)+decompile, read_routines(doc)+decompile]: the second call returned ops numbered 4.. with jump parameters still 1-based and decompiled to the SsbScript fallback: module-level counter never reset"),
    ("C08", "fix: source map file of macros imported by an imported file",
     "main.exps -> lib.exps -> deep/lib2.exps: macro entries and IncludedUsageMap named lib.exps for macros defined in deep/lib2.exps (66 of 574 macro cases)"),
]


def main():
    log = subprocess.run(["git", "-C", "/repo", "log", "--format=%h %s", "c8fefe7..HEAD"], capture_output=True, text=True).stdout
    by_subject = {}
    for line in log.strip().splitlines():
        h, _, subj = line.partition(" ")
        by_subject[subj] = h
    path = os.path.join(HERE, "known_findings.json")
    k = json.load(open(path))
    fixed = []
    used = set()
    for prop, subj, what in FIXED:
        if subj not in by_subject:
            raise SystemExit(f"no commit with subject {subj!r}")
        used.add(subj)
        fixed.append(f"fixed: property={prop} {by_subject[subj]} {what}")
    missing = [s for s in by_subject if s.startswith("fix:") and s not in used]
    if missing:
        print("WARNING: fix commits without a fixed entry:", missing)
    k["fixed"] = fixed
    json.dump(k, open(path, "w"), indent=1)
    print(len(fixed), "fixed entries written")


if __name__ == "__main__":
    main()
