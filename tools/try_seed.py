#!/venv/bin/python
"""Development-time tool: confirm a seeded change (patch + demo) and run checks against it.

usage: tools/try_seed.py <patch.diff> <demo.py> <check id>[,<check id>...] [--tier quick|thorough]
1. scratch worktree of /repo: apply the patch, the repository's test suite must pass, the demo must fail;
   without the patch the demo must pass; the worktree is removed.
2. the patch is applied to /repo, the checks are run, /repo is restored (git checkout -- .).
"""
import json
import os
import shutil
import subprocess
import sys
import time

HERE = os.path.dirname(os.path.dirname(os.path.abspath(__file__)))
PY = "/venv/bin/python"


def sh(cmd, cwd=None, env=None, timeout=3600):
    p = subprocess.run(cmd, cwd=cwd, env=env, capture_output=True, text=True, timeout=timeout)
    return p.returncode, p.stdout, p.stderr


def main():
    patch, demo, checks = sys.argv[1], sys.argv[2], sys.argv[3].split(",")
    tier = "quick"
    if "--tier" in sys.argv:
        tier = sys.argv[sys.argv.index("--tier") + 1]
    patch = os.path.abspath(patch)
    demo = os.path.abspath(demo)
    out = {"patch": patch, "demo": demo}
    wt = f"/tmp/tryseed_{os.getpid()}"
    rc, o, e = sh(["git", "-C", "/repo", "worktree", "add", "-q", wt, "HEAD"])
    assert rc == 0, e
    try:
        env = dict(os.environ, PYTHONPATH=wt)
        rc, o, e = sh(["git", "apply", patch], cwd=wt)
        out["applies"] = rc == 0
        if rc != 0:
            out["apply_error"] = e[-400:]
            print(json.dumps(out, indent=1))
            return 1
        rc, o, e = sh([PY, "-m", "pytest", "-q", "-p", "no:cacheprovider"], cwd=wt, env=env)
        out["suite_with_patch"] = o.strip().splitlines()[-1] if o.strip() else e[-200:]
        out["suite_passes"] = "111 passed" in o
        os.makedirs(os.path.join(wt, "_seed"), exist_ok=True)
        shutil.copy(demo, os.path.join(wt, "_seed", "demo.py"))   # demos locate the library relative to their own directory
        rc, o, e = sh([PY, "_seed/demo.py"], cwd=wt, env=env, timeout=600)
        out["demo_with_patch_exit"] = rc
        out["demo_with_patch_output"] = (o + e)[-500:]
        sh(["git", "checkout", "--", "explorerscript"], cwd=wt)
        rc, o, e = sh([PY, "_seed/demo.py"], cwd=wt, env=env, timeout=600)
        out["demo_without_patch_exit"] = rc
        if rc != 0:
            out["demo_without_patch_output"] = (o + e)[-500:]
        out["confirmed"] = bool(out.get("suite_passes") and out.get("demo_with_patch_exit") not in (0, None)
                                and out.get("demo_without_patch_exit") == 0)
        # run the checks against the patched scratch copy (VERIF_REPO), so that /repo itself is never touched
        rc, o, e = sh(["git", "apply", patch], cwd=wt)
        assert rc == 0, e
        results = {}
        scratch = f"/tmp/tryseed_out_{os.getpid()}"
        env2 = dict(os.environ, VERIF_REPO=wt, VERIF_EVIDENCE_DIR=os.path.join(scratch, "evidence"),
                    VERIF_REPLAY_DIR=os.path.join(scratch, "replays"))
        for c in checks:
            t0 = time.time()
            rc, o, e = sh([os.path.join(HERE, "check"), c, "--tier", tier], cwd=HERE, env=env2, timeout=7200)
            lines = [ln for ln in o.splitlines() if ln.startswith(("VIOLATION", "HARNESS", "#", c))]
            first = None
            for ln in lines:
                if ln.startswith("VIOLATION"):
                    try:
                        rec = json.load(open(ln.split("replay=", 1)[1]))
                        first = {"kind": rec.get("kind"), "case_id": str(rec.get("case_id"))[:200]}
                    except Exception:
                        pass
                    break
            results[c] = {"exit": rc, "wall_s": round(time.time() - t0, 1), "lines": lines[:3] + lines[-1:], "first_violation": first}
        shutil.rmtree(scratch, ignore_errors=True)
    finally:
        sh(["git", "-C", "/repo", "worktree", "remove", "--force", wt])
        shutil.rmtree(wt, ignore_errors=True)
    out["checks"] = results
    out["detected_by"] = [c for c, r in results.items() if r["exit"] == 1]
    print(json.dumps(out, indent=1))
    return 0


if __name__ == "__main__":
    sys.exit(main())
