import sys, traceback; sys.path.insert(0, "/verif")
from vf import impl
impl.warm()
import logging; logging.disable(logging.CRITICAL)
src = sys.argv[1]
c = impl.compile_es(src)
for r in c.routine_ops:
    for op in r: print('   ', op.offset, op.op_code.name, list(op.params))
from explorerscript.ssb_converting import ssb_decompiler as D
from explorerscript.ssb_converting.decompiler.graph_building.graph_minimizer import SsbGraphMinimizer
from explorerscript.ssb_converting.decompiler.label_jump_to_resolver import OpsLabelJumpToResolver
from explorerscript.ssb_converting.decompiler.write_handlers.routine import RoutineWriteHandler
from explorerscript.source_map import SourceMapBuilder
d = D.ExplorerScriptSsbDecompiler(c.routine_infos, c.routine_ops, impl.coroutine_objects(c.named_coroutines), impl.PERF, impl.dungeon_mode_constants())
d.smb = SourceMapBuilder()
try:
    resolver = OpsLabelJumpToResolver(d._routine_ops)
    d._routine_ops = list(resolver)
    g = SsbGraphMinimizer(d._routine_ops, True)
    for step in ['optimize_paths','build_branches','group_branches','invert_branches','build_and_group_switch_cases','group_switch_cases','build_switch_fallthroughs','build_loops','remove_label_markers']:
        getattr(g, step)()
        print('step ok', step)
    for r_id, (r_info, r_graph) in enumerate(zip(d._routine_infos, g.get_graphs())):
        RoutineWriteHandler(d, r_id, r_info, r_graph).write_content()
    print(d._output)
except BaseException:
    traceback.print_exc()
