#!/venv/bin/python
"""Development-time tool (never reachable from a registered command): regenerate the case lists of the open
known findings of one property.  usage: tools/regen_known.py C02 [quick|thorough|both]"""
import importlib
import json
import os
import subprocess
import sys

HERE = os.path.dirname(os.path.dirname(os.path.abspath(__file__)))
sys.path.insert(0, HERE)
prop = sys.argv[1]
tiers = {"quick": ["quick"], "thorough": ["thorough"], "both": ["quick", "thorough"]}[sys.argv[2] if len(sys.argv) > 2 else "both"]
mod = importlib.import_module(f"vf.props.{prop}")
groups = {}
unclassified = []
for rot in range(4):
    for tier in tiers:
        dump = f"/tmp/regen_{prop}_{rot}_{tier}.jsonl"
        env = dict(os.environ, VERIF_SEED=str(rot), VERIF_DUMP=dump)
        # the known file is ignored while regenerating
        subprocess.run([os.path.join(HERE, "check"), prop, "--tier", tier], env=env, cwd=HERE, stdout=subprocess.DEVNULL)
        for line in open(dump):
            v = json.loads(line)
            g = mod.classify(v)
            key = f"{v['case_hash']} {v['kind'].replace(' ', '_')}"
            if g is None:
                unclassified.append((key, v["case_id"]))
            else:
                groups.setdefault(g, set()).add(key)
        os.remove(dump)
        print(prop, "rotation", rot, tier, {g: len(s) for g, s in groups.items()}, "unclassified", len(unclassified), flush=True)
os.makedirs(os.path.join(HERE, "known"), exist_ok=True)
for g, s in groups.items():
    with open(os.path.join(HERE, "known", f"{g}.sig"), "w") as f:
        f.write("\n".join(sorted(s)) + "\n")
print("unclassified:", unclassified[:10])
