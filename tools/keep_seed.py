#!/venv/bin/python
"""Development-time tool: file a confirmed seeded change under /verif/seeded/<name>/.

usage: tools/keep_seed.py <name> <property> <patch.diff> <demo.py> <try_seed result.json> "<what it needs to manifest>"
"""
import json
import os
import shutil
import sys

HERE = os.path.dirname(os.path.dirname(os.path.abspath(__file__)))


def main():
    name, prop, patch, demo, result, needs = sys.argv[1:7]
    res = json.load(open(result))
    d = os.path.join(HERE, "seeded", name)
    os.makedirs(d, exist_ok=True)
    shutil.copy(patch, os.path.join(d, "patch.diff"))
    shutil.copy(demo, os.path.join(d, "demo.py"))
    meta = {
        "breaks_property": prop,
        "needs_to_manifest": needs,
        "confirmed": {
            "patch_applies_to_clean_checkout": res.get("applies"),
            "repository_test_suite_with_patch": res.get("suite_with_patch"),
            "demo_exit_with_patch": res.get("demo_with_patch_exit"),
            "demo_exit_without_patch": res.get("demo_without_patch_exit"),
            "how": "tools/try_seed.py: scratch worktree of /repo HEAD, `git apply patch.diff`, "
                   "`PYTHONPATH=<worktree> /venv/bin/python -m pytest -q -p no:cacheprovider`, demo with and without the patch; "
                   "then `./check <ID> --tier quick` with the patched worktree as the library under test (VERIF_REPO); worktree removed",
        },
        "checks_run": {c: {"exit": r["exit"], "wall_s": r["wall_s"], "first_violation": r.get("first_violation")}
                       for c, r in res.get("checks", {}).items()},
        "detected_by": res.get("detected_by"),
        "demo_output_with_patch": (res.get("demo_with_patch_output") or "")[-300:],
    }
    with open(os.path.join(d, "meta.json"), "w") as f:
        json.dump(meta, f, indent=1)
    print("kept", d, "detected_by", meta["detected_by"])


if __name__ == "__main__":
    main()
