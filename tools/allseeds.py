#!/venv/bin/python
"""Development-time tool: run the quick tier of every check for several VERIF_SEED values from fresh processes and report
exit codes (evidence / replays go to a scratch directory).  usage: tools/allseeds.py [seeds, default 0,1,2,3,7,12345] [ids]"""
import json
import os
import subprocess
import sys
import time

HERE = os.path.dirname(os.path.dirname(os.path.abspath(__file__)))
seeds = sys.argv[1].split(",") if len(sys.argv) > 1 else ["0", "1", "2", "3", "7", "12345"]
ids = sys.argv[2].split(",") if len(sys.argv) > 2 else [f"C{i:02d}" for i in range(1, 19)]
tier = sys.argv[3] if len(sys.argv) > 3 else "quick"
scratch = "/tmp/allseeds_out"
bad = 0
for seed in seeds:
    for c in ids:
        env = dict(os.environ, VERIF_SEED=seed, VERIF_EVIDENCE_DIR=f"{scratch}/evidence", VERIF_REPLAY_DIR=f"{scratch}/replays")
        t0 = time.time()
        p = subprocess.run([os.path.join(HERE, "check"), c, "--tier", tier], env=env, cwd=HERE, capture_output=True, text=True)
        viol = [ln for ln in p.stdout.splitlines() if ln.startswith(("VIOLATION", "HARNESS"))]
        last = p.stdout.strip().splitlines()[-1][:160] if p.stdout.strip() else p.stderr[-200:]
        status = "ok" if p.returncode == 0 and not viol else "BAD"
        bad += status != "ok"
        print(f"seed={seed} {c} rc={p.returncode} {time.time() - t0:.0f}s {status} {last if status != 'ok' else ''}", flush=True)
print("bad:", bad)
