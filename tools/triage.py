import json, collections, sys
vs=[json.loads(l) for l in open(sys.argv[1])]
n=int(sys.argv[2]) if len(sys.argv)>2 else 2
by=collections.defaultdict(list)
for v in vs: by[v['kind']].append(v)
def size(v):
    d=v['detail']
    return len(str(d.get('input') or d.get('source') or ''))
for k,l in sorted(by.items()):
    l.sort(key=size)
    print('=========',k,len(l))
    for v in l[:n]:
        d=v['detail']
        print('case:', v['case_id'][:200])
        for key in ('source','input','text','error','mismatch','expected','got','op','entry','decompile_entry','compile_entry','line_text','key','diffs'):
            if key in d:
                val=d[key]
                if key in ('source','text'): print(f'--{key}:'); print(val)
                else: print(f'--{key}:', json.dumps(val)[:600])
        print()
