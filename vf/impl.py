"""Thin wrappers around the implementation under test (imported from /repo's working tree)."""
from __future__ import annotations

import os
import sys

REPO = os.environ.get("VERIF_REPO", "/repo")
PERF = "$PERFORMANCE_PROGRESS_LIST"
DMODE = ("DMODE_CLOSE", "DMODE_OPEN", "DMODE_REQUEST", "DMODE_OPEN_AND_REQUEST")


def ensure_repo_on_path():
    """The checks must see /repo's current working tree, whatever is installed."""
    if sys.path[0] != REPO:
        sys.path.insert(0, REPO)
    os.environ.setdefault("TECH_TICKS_EXPLORERSCRIPT_VERIF", "1")


ensure_repo_on_path()


def warm():
    """Import everything once in the template process (before forking workers)."""
    import explorerscript.ssb_converting.ssb_compiler  # noqa
    import explorerscript.ssb_converting.ssb_decompiler  # noqa
    import explorerscript.ssb_script.ssb_converting.ssb_compiler  # noqa
    import explorerscript.ssb_script.ssb_converting.ssb_decompiler  # noqa
    import explorerscript.source_map  # noqa
    mod = sys.modules["explorerscript"]
    assert os.path.realpath(mod.__file__).startswith(os.path.realpath(REPO) + os.sep), mod.__file__
    compile_es("def 0 { a(); if (debug) { b(); } }")


class Compiled:
    __slots__ = ("routine_ops", "routine_infos", "named_coroutines", "source_map", "compiler")

    def __init__(self, c):
        self.routine_ops = c.routine_ops
        self.routine_infos = c.routine_infos
        self.named_coroutines = c.named_coroutines
        self.source_map = c.source_map
        self.compiler = c


def compile_es(text, file_name="/nonexistent-dir/main.exps", lookup_paths=None):
    from explorerscript.ssb_converting.ssb_compiler import ExplorerScriptSsbCompiler
    c = ExplorerScriptSsbCompiler(PERF, lookup_paths)
    c.compile(text, file_name)
    return Compiled(c)


def compile_ssbs(text):
    from explorerscript.ssb_script.ssb_converting.ssb_compiler import SsbScriptSsbCompiler
    c = SsbScriptSsbCompiler()
    c.compile(text)
    return Compiled(c)


def documented_compile_errors():
    from explorerscript.error import ParseError, SsbCompilerError
    return (ParseError, SsbCompilerError, ValueError)


def dungeon_mode_constants():
    from explorerscript.ssb_converting.ssb_data_types import DungeonModeConstants
    return DungeonModeConstants(*DMODE)


def coroutine_objects(named_coroutines):
    """list indexed by routine (str or falsy) or dict rid -> name  ->  [SsbCoroutine(rid, name)]"""
    from explorerscript.ssb_converting.ssb_data_types import SsbCoroutine
    if isinstance(named_coroutines, dict):
        items = sorted(named_coroutines.items())
    else:
        items = [(i, n) for i, n in enumerate(named_coroutines)]
    return [SsbCoroutine(i, n) for i, n in items if isinstance(n, str) and n]


def decompile_es(routine_ops, routine_infos, named_coroutines):
    from explorerscript.ssb_converting.ssb_decompiler import ExplorerScriptSsbDecompiler
    d = ExplorerScriptSsbDecompiler(routine_infos, routine_ops, coroutine_objects(named_coroutines), PERF,
                                    dungeon_mode_constants())
    return d.convert()


def decompile_ssbs(routine_ops, routine_infos, named_coroutines):
    from explorerscript.ssb_script.ssb_converting.ssb_decompiler import SsbScriptSsbDecompiler
    d = SsbScriptSsbDecompiler(routine_infos, routine_ops, coroutine_objects(named_coroutines))
    return d.convert()


def routine_table(routine_infos, named_coroutines):
    """[(kind name, target canonical value, coroutine name|None)] as the property words it."""
    out = []
    for i, info in enumerate(routine_infos):
        if info is None:
            out.append(None)
            continue
        name = named_coroutines[i] if i < len(named_coroutines) else None
        if not isinstance(name, str) or not name:
            name = None
        if info.linked_to_name:
            target = ("c", info.linked_to_name)
        else:
            target = ("i", info.linked_to)
        out.append((info.type.name, target, name))
    return out
