"""G-layout: re-spellings of one token sequence (separators at every token boundary) and alternative literal forms."""
from __future__ import annotations

import re

TOKEN_RE = re.compile(r"""
    (?P<ml>'''.*?'''|\"\"\".*?\"\"\")
  | (?P<str>'(?:\\.|[^\\'\r\n\f])*'|"(?:\\.|[^\\"\r\n\f])*")
  | (?P<num>-?(?:0[xX][0-9a-fA-F]+|0[oO][0-7]+|0[bB][01]+|\d+\.\d+|\.\d+|\d+))
  | (?P<id>[$~]?[A-Za-z_][0-9A-Za-z_]*)
  | (?P<op>&<<|==|<=|>=|!=|-=|\+=|\*=|/=|\|\|)
  | (?P<punct>[(){}\[\],:;=<>@§&^+])
""", re.X | re.S)


def tokenize(text):
    """Lexical tokens of a program text without comments (as written by vf.esast.Renderer)."""
    out = []
    pos = 0
    n = len(text)
    while pos < n:
        c = text[pos]
        if c in " \t\r\n":
            pos += 1
            continue
        m = TOKEN_RE.match(text, pos)
        if not m:
            raise ValueError(f"cannot tokenize at {pos}: {text[pos:pos + 20]!r}")
        out.append(m.group(0))
        pos = m.end()
    return out


def glue_ok(a, b):
    """Two tokens may be written without any separator iff re-lexing the concatenation gives them back."""
    try:
        return tokenize(a + b) == [a, b]
    except ValueError:
        return False


SEPARATORS = [" ", "\t", "\n", "\r\n", "  \n  ", "/*c*/", " /* c\n c */ ", "//c\n", " // if (x) { ;\n", "\\\n", " \\ \n"]
EOF_SUFFIXES = ["", "\n", "\n\n  ", "/*c", " /* unterminated\n\n", "//c", "// c\n", "\\\n", "/**/"]
PREFIXES = ["", "\n", " \t", "/*c*/", "//c\n", "// ?: not an attribute\n", "\\\n"]


def join(tokens, seps):
    return "".join(t + s for t, s in zip(tokens, seps))


def default_seps(tokens):
    """Canonical separation: one blank, newline after ; { } (as a plain readable layout)."""
    return [" "] * len(tokens)


def one_deviation(tokens):
    """Yield (tag, text) for every boundary x every separator (and 'nothing' where legal)."""
    base = default_seps(tokens)
    n = len(tokens)
    for i in range(n - 1):
        for si, s in enumerate(SEPARATORS):
            seps = list(base)
            seps[i] = s
            yield ("sep", i, si), join(tokens, seps)
        if glue_ok(tokens[i], tokens[i + 1]):
            seps = list(base)
            seps[i] = ""
            yield ("glue", i), join(tokens, seps)
    for si, s in enumerate(EOF_SUFFIXES):
        seps = list(base)
        seps[-1] = s
        yield ("eof", si), join(tokens, seps)
    for pi, p in enumerate(PREFIXES):
        yield ("prefix", pi), p + join(tokens, base)
    # everything glued that can be glued; everything separated by comments
    seps = ["" if i < n - 1 and glue_ok(tokens[i], tokens[i + 1]) else " " for i in range(n)]
    yield ("all-glued",), join(tokens, seps)
    yield ("all-comments",), join(tokens, ["/*c*/"] * n)
    yield ("all-newlines",), join(tokens, ["\n"] * n)
    yield ("all-crlf",), join(tokens, ["\r\n"] * n)
    yield ("all-joined",), join(tokens, [" \\\n "] * n)


def two_deviations(tokens, stride=1):
    """Adjacent boundary pairs x a reduced separator set."""
    base = default_seps(tokens)
    red = ["", "\n", "/*c*/", "//c\n", "\\\n", "\t"]
    n = len(tokens)
    for i in range(0, n - 2, stride):
        for a in red:
            if a == "" and not glue_ok(tokens[i], tokens[i + 1]):
                continue
            for b in red:
                if b == "" and not glue_ok(tokens[i + 1], tokens[i + 2]):
                    continue
                if a == "" and b == "" and tokenize(tokens[i] + tokens[i + 1] + tokens[i + 2]) != tokens[i:i + 3]:
                    continue
                seps = list(base)
                seps[i] = a
                seps[i + 1] = b
                yield ("sep2", i, a, b), join(tokens, seps)


def scan(text):
    """Tokens with positions [(token, line, col, start index, end index)], skipping blanks, comments and line joining
    (an independent reading of the lexical grammar; strings are matched before comments)."""
    out = []
    pos = 0
    n = len(text)
    line = 0
    line_start = 0
    while pos < n:
        c = text[pos]
        if c == "\n":
            pos += 1
            line += 1
            line_start = pos
            continue
        if c in " \t\r\f":
            pos += 1
            continue
        if text.startswith("/*", pos):
            end = text.find("*/", pos + 2)
            end = n if end < 0 else end + 2
            for i in range(pos, end):
                if text[i] == "\n":
                    line += 1
                    line_start = i + 1
            pos = end
            continue
        if text.startswith("//", pos):
            end = text.find("\n", pos)
            pos = n if end < 0 else end
            continue
        if c == "\\":
            # line joining: backslash, optional blanks, line break
            j = pos + 1
            while j < n and text[j] in " \t":
                j += 1
            if j < n and text[j] in "\r\n\f":
                pos = j
                continue
        m = TOKEN_RE.match(text, pos)
        if not m:
            raise ValueError(f"cannot scan at {pos}: {text[pos:pos + 20]!r}")
        tok = m.group(0)
        out.append((tok, line, pos - line_start, pos, m.end()))
        for i in range(pos, m.end()):
            if text[i] == "\n":
                line += 1
                line_start = i + 1
        pos = m.end()
    return out
