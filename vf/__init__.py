"""Verification framework for tech-ticks/ExplorerScript (bounded exhaustive exploration)."""
