"""G-macro: all acyclic macro call graphs on m macros x all definition orders x file layouts."""
from __future__ import annotations

import itertools

from . import esast as A


def acyclic_digraphs(m):
    """All labelled DAGs on nodes 0..m-1 as frozensets of edges (caller, callee)."""
    pairs = [(i, j) for i in range(m) for j in range(m) if i != j]
    out = []
    for bits in range(1 << len(pairs)):
        edges = [pairs[k] for k in range(len(pairs)) if bits >> k & 1]
        if _acyclic(m, edges):
            out.append(tuple(edges))
    return out


def _acyclic(m, edges):
    indeg = [0] * m
    adj = [[] for _ in range(m)]
    for a, b in edges:
        adj[a].append(b)
        indeg[b] += 1
    stack = [i for i in range(m) if indeg[i] == 0]
    seen = 0
    while stack:
        n = stack.pop()
        seen += 1
        for b in adj[n]:
            indeg[b] -= 1
            if indeg[b] == 0:
                stack.append(b)
    return seen == m


ARG_KINDS = [
    lambda i, k: ("i", 10 * i + k),
    lambda i, k: ("c", f"CONST_{i}_{k}"),
    lambda i, k: ("s", f"str {i} {k}"),
    lambda i, k: ("c", f"$GAMEVAR_{i}_{k}"),
    lambda i, k: ("f", f"{i}.{k}5"),
    lambda i, k: ("p", f"mark{i}", 0, 2, i, k),
    lambda i, k: ("l", (("english", f"e{i}{k}"),)),
]


def n_params(i, variant):
    """Macros take two, one or no parameters (parameterless ones share blueprint lists between expansions)."""
    return (2, 2, 0, 1)[(i + variant) % 4]


def macro_body(i, callees, variant, seed, nparams=2):
    """Body of macro i: parameter use, nested calls (passing its own parameter on), early return, private label."""
    p = ("c", f"$p{i}") if nparams >= 1 else ("c", f"FIXED_P{i}")
    q = ("c", f"$q{i}") if nparams >= 2 else ("i", 40 + i)
    body = [A.Op(f"m{i}_a", [p, ("i", i)])]
    if variant % 5 == 4:
        # the first op the compiler numbers for the expansion is a jump that turns out to be redundant
        body = [A.Jump("first"), A.Label("first")] + body
    for n, j in enumerate(callees):
        a1 = q if (n + variant) % 2 == 0 else ARG_KINDS[(seed + i + j) % len(ARG_KINDS)](i, j)
        a2 = p if (n + variant) % 3 == 0 else ("i", 100 + 10 * i + j)
        body.append(("call", j, a1, a2))
        if n == 0 and variant % 2 == 1:
            body.append(A.If([A.IfBranch(False, [A.Cond("op", p if p[0] == "c" else ("c", "$X"), "==", "int", ("i", i))], [A.Ctrl("return")])]))
    if variant % 2 == 0:
        body.append(A.If([A.IfBranch(True, [A.Cond("special", False, "debug")], [A.Ctrl("return")])]))
    body.append(A.Label("priv"))
    body.append(A.Op(f"m{i}_b", [q]))
    if variant % 3 != 2:
        body.append(A.If([A.IfBranch(False, [A.Cond("op", ("c", f"$LOOPVAR{i}"), "<", "int", ("i", 3))], [A.Jump("priv")])]))
    else:
        body.append(A.While(False, A.Cond("bit", False, ("c", f"$FLAGS{i}"), 1), [A.Ctrl("break_loop")]))
    if variant % 4 == 3:
        # the body ends with a conditional jump to its own end (a Return has to be appended when a routine ends there)
        body.append(A.While(True, A.Cond("special", False, "variation"), [A.Op(f"m{i}_w", [q])]))
    return body


def make_macros(m, edges, variant, seed):
    callees = {i: sorted(j for a, j in edges if a == i) for i in range(m)}
    nps = [n_params(i, variant) for i in range(m)]
    out = []
    for i in range(m):
        body = []
        for st in macro_body(i, callees[i], variant + i, seed, nps[i]):
            if isinstance(st, tuple) and st[0] == "call":
                _, j, a1, a2 = st
                body.append(A.MacroCall(f"m{j}", [a1, a2][:nps[j]]))
            else:
                body.append(st)
        out.append(A.Macro(f"m{i}", [f"$p{i}", f"$q{i}"][:nps[i]], body))
    return out


def main_routine(m, edges, seed, variant=0):
    callers = {j for _, j in edges}
    roots = [i for i in range(m) if i not in callers]
    nps = [n_params(i, variant) for i in range(m)]
    body = [A.Op("start_op", [])]
    for n, i in enumerate(roots):
        body.append(A.MacroCall(f"m{i}", [ARG_KINDS[(seed + n) % len(ARG_KINDS)](i, 0), ("i", 900 + i)][:nps[i]]))
    # call macro 0 a second time (private labels / return per expansion), inside a block
    body.append(A.If([A.IfBranch(False, [A.Cond("special", False, "edit")],
                                 [A.MacroCall("m0", [("c", "SECOND_CALL"), ("s", "again")][:nps[0]])])]))
    # and the last macro twice more in a row (parameterless for some variants)
    body.append(A.MacroCall(f"m{m - 1}", [("i", 7), ("i", 8)][:nps[m - 1]]))
    body.append(A.MacroCall(f"m{m - 1}", [("i", 9), ("c", "LAST")][:nps[m - 1]]))
    if variant % 4 != 1:
        # (otherwise the routine ends with the expansion: the compiler appends the Return behind ops of a macro)
        body.append(A.Op("end_op", []))
    return A.Routine("def", 0, body)


def downward_closed_subsets(m, edges):
    """All subsets S of macros closed under callees (may be moved to an imported file together)."""
    callees = {i: {j for a, j in edges if a == i} for i in range(m)}
    out = []
    for bits in range(1 << m):
        s = {i for i in range(m) if bits >> i & 1}
        if all(callees[i] <= s for i in s):
            out.append(tuple(sorted(s)))
    return out


def cases(max_m, seed=0, all_layouts=False, min_m=1):
    """Yield (case_id, spec) ; spec = dict(m, edges, order, lib (tuple of macro ids in lib.exps), lib2, variant)."""
    for m in range(min_m, max_m + 1):
        for edges in acyclic_digraphs(m):
            subsets = downward_closed_subsets(m, edges)
            if all_layouts:
                layouts = [(s, ()) for s in subsets]
                # two-level chains: lib2 downward closed, lib downward closed and containing lib2
                for s in subsets:
                    for s2 in subsets:
                        if s2 and set(s2) < set(s):
                            layouts.append((tuple(x for x in s if x not in s2), s2))
            else:
                sinks = tuple(i for i in range(m) if not any(a == i for a, _ in edges))
                layouts = [((), ()), (tuple(range(m)), ())]
                if 0 < len(sinks) < m:
                    layouts.append((sinks, ()))
                    rest_closed = [s for s in subsets if set(sinks) < set(s) and len(s) < m]
                    if rest_closed:
                        s = rest_closed[0]
                        layouts.append((tuple(x for x in s if x not in sinks), sinks))
            for order in itertools.permutations(range(m)):
                for li, (lib, lib2) in enumerate(layouts):
                    variant = (sum(order[:2]) + li) % 6
                    yield ("macro", m, edges, order, lib, lib2), dict(m=m, edges=edges, order=order, lib=lib, lib2=lib2,
                                                                     variant=variant)
                    if lib and lib2:
                        # the same import chain with the middle file in another directory than the compiled file
                        yield ("macro", m, edges, order, lib, lib2, "subdir"), dict(m=m, edges=edges, order=order, lib=lib, lib2=lib2,
                                                                                   variant=variant, subdir=True)


def build_files(spec, seed):
    """-> (files: dict relative path -> Program, all_macros, main Program)."""
    m, edges, order = spec["m"], spec["edges"], spec["order"]
    macros = make_macros(m, edges, spec["variant"], seed)
    lib, lib2 = set(spec["lib"]), set(spec["lib2"])
    in_main = [macros[i] for i in order if i not in lib and i not in lib2]
    in_lib = [macros[i] for i in order if i in lib]
    in_lib2 = [macros[i] for i in order if i in lib2]
    files = {}
    imports_main = []
    if spec["variant"] % 3 == 0:
        # macros with a position mark that are never called: their marks are not part of the result
        in_main = in_main + [A.Macro("unused_pm", [], [A.Op("never", [("p", "unused main", 0, 2, 9, 9)])])]
        if in_lib:
            in_lib = [A.Macro("unused_pm_lib", ["$u"], [A.Op("never_lib", [("p", "unused lib", 2, 0, 8, 8), ("c", "$u")])])] + in_lib
    sub = "sub/" if spec.get("subdir") else ""
    if in_lib2:
        files[sub + "deep/lib2.exps"] = A.Program([], in_lib2)
    if in_lib:
        files[sub + "lib.exps"] = A.Program([], in_lib, imports=["./deep/lib2.exps"] if in_lib2 else [])
        imports_main.append("./" + sub + "lib.exps")
    elif in_lib2:
        imports_main.append("./deep/lib2.exps")
    main = A.Program([main_routine(m, edges, seed, spec["variant"])], in_main, imports=imports_main)
    # routine between macro definitions for some variants: macros after the routine are legal too
    if spec["variant"] % 2 == 1 and in_main:
        main.order = [("m", i) for i in range(len(in_main) // 2)] + [("r", 0)] + \
                     [("m", i) for i in range(len(in_main) // 2, len(in_main))]
    files["main.exps"] = main
    return files, macros, main
