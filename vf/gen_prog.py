"""G-prog: exhaustive enumeration of ExplorerScript programs by statement count and nesting depth.

Two stages: (1) *skeletons* — nested tuples over a small alphabet of statement kinds, enumerated
exhaustively for an exact node budget; (2) *instantiation* — unique operation names, and
condition / header / value forms rotated by VERIF_SEED (rotation of a finite choice, never sampling).
"""
from __future__ import annotations

import functools
import itertools

from . import esast as A

PERF = "$PERFORMANCE_PROGRESS_LIST"


class Alphabet:
    def __init__(self, name, leaves, if_variants, switch_max_items, loops, labels=1, cond_counts=(1, 2),
                 switch_default=True):
        self.name = name
        self.leaves = tuple(leaves)
        self.if_variants = tuple(if_variants)  # tuples of (n_elseif, has_else)
        self.switch_max_items = switch_max_items
        self.loops = tuple(loops)  # subset of forever, while, whilenot, for
        self.labels = labels
        self.cond_counts = tuple(cond_counts)
        self.switch_default = switch_default

    def __hash__(self):
        return hash(self.name)

    def __eq__(self, o):
        return isinstance(o, Alphabet) and o.name == self.name


FULL = Alphabet(
    "full",
    leaves=["op", "opctx", "with_op", "with_return", "with_jump", "assign", "label", "jump", "call",
            "return", "end", "hold", "continue", "break_loop", "break", "msw", "mcall"],
    if_variants=[(0, False), (0, True), (1, False), (1, True)],
    switch_max_items=3,
    loops=["forever", "while", "whilenot", "for"],
    labels=2,
)
REDUCED = Alphabet(
    "reduced",
    leaves=["op", "label", "jump", "return", "end", "continue", "break_loop", "break"],
    if_variants=[(0, False), (0, True), (1, False)],
    switch_max_items=3,
    loops=["forever", "while", "whilenot", "for"],
    labels=1,
)
TINY = Alphabet(
    "tiny",
    leaves=["op", "label", "jump", "return", "continue", "break_loop", "break"],
    if_variants=[(0, False), (0, True)],
    switch_max_items=2,
    loops=["forever", "while", "for"],
    labels=1,
    cond_counts=(1,),
)


def _compositions(total, parts):
    """All tuples of `parts` non-negative ints summing to total."""
    if parts == 0:
        if total == 0:
            yield ()
        return
    if parts == 1:
        yield (total,)
        return
    for first in range(total + 1):
        for rest in _compositions(total - first, parts - 1):
            yield (first,) + rest


@functools.lru_cache(maxsize=None)
def bodies(alpha, n, in_loop, in_case, depth):
    """All statement-list skeletons with exactly n nodes (tuple of tuples)."""
    if n == 0:
        return ((),)
    out = []
    for first_size in range(1, n + 1):
        firsts = stmts(alpha, first_size, in_loop, in_case, depth)
        if not firsts:
            continue
        rests = bodies(alpha, n - first_size, in_loop, in_case, depth)
        for f in firsts:
            for r in rests:
                out.append((f,) + r)
    return tuple(out)


@functools.lru_cache(maxsize=None)
def stmts(alpha, n, in_loop, in_case, depth):
    """All single-statement skeletons with exactly n nodes."""
    out = []
    if n == 1:
        for leaf in alpha.leaves:
            if leaf in ("continue", "break_loop") and not in_loop:
                continue
            if leaf == "break" and not in_case:
                continue
            if leaf in ("label", "jump", "call", "with_jump"):
                for k in range(alpha.labels):
                    out.append((leaf, k))
            else:
                out.append((leaf,))
    if depth <= 0:
        return tuple(out)
    d = depth - 1
    # if blocks: cost 1 + n_elseif + bodies
    for n_elseif, has_else in alpha.if_variants:
        budget = n - 1 - n_elseif
        if budget < 0:
            continue
        nb = 1 + n_elseif + (1 if has_else else 0)
        for comp in _compositions(budget, nb):
            blists = [bodies(alpha, c, in_loop, in_case, d) for c in comp]
            for combo in itertools.product(*blists):
                branch_bodies = combo[: 1 + n_elseif]
                else_body = combo[-1] if has_else else None
                for negs in itertools.product((False, True), repeat=1 + n_elseif):
                    for ncs in itertools.product(alpha.cond_counts, repeat=1 + n_elseif):
                        out.append(("if", tuple(zip(negs, ncs, branch_bodies)), else_body))
    # switch: cost 1 + bodies; up to switch_max_items items; at most one default; last body non-empty
    budget = n - 1
    if budget >= 1:
        for m in range(1, alpha.switch_max_items + 1):
            for comp in _compositions(budget, m):
                if comp[-1] == 0:
                    continue
                blists = [bodies(alpha, c, in_loop, True, d) for c in comp]
                defaults = [None] + (list(range(m)) if alpha.switch_default else [])
                for combo in itertools.product(*blists):
                    for dflt in defaults:
                        out.append(("switch", dflt, combo))
    elif budget == 0:
        out.append(("switch", None, ()))
    # loops: cost 1 + body
    for loop in alpha.loops:
        for b in bodies(alpha, n - 1, True, in_case, d):
            out.append((loop, b))
    return tuple(out)


# ------------------------------------------------------------------ instantiation
def _v(k):
    return ("c", f"$V{k}")


COND_FORMS = [
    lambda k: A.Cond("op", _v(k), "==", "int", ("i", k)),
    lambda k: A.Cond("special", False, "debug"),
    lambda k: A.Cond("op", _v(k), ">=", "valueof", _v(k + 50)),
    lambda k: A.Cond("bit", False, _v(k), k % 7),
    lambda k: A.Cond("op", _v(k), "<", "int", ("i", k + 1)),
    lambda k: A.Cond("special", True, "variation"),
    lambda k: A.Cond("scn", _v(k), ">", k, 1),
    lambda k: A.Cond("bit", True, ("c", PERF), k % 5),
    lambda k: A.Cond("op", ("i", k + 3), "!=", "int", ("c", f"CONST_{k}")),
    lambda k: A.Cond("special", False, "edit"),
    lambda k: A.Cond("scn", _v(k), "<=", 2, k),
    lambda k: A.Cond("op", _v(k), "&<<", "int", ("i", 2)),
]
SWITCH_HEADERS = [
    lambda k: A.SwitchHeader("var", _v(k + 20)),
    lambda k: A.SwitchHeader("random", ("i", 3 + k)),
    lambda k: A.SwitchHeader("scn", _v(k + 20), 1),
    lambda k: A.SwitchHeader("dmode", ("c", f"DUNGEON_{k}")),
    lambda k: A.SwitchHeader("sector"),
    lambda k: A.SwitchHeader("opcall", "message_Menu", (("i", k),)),
    lambda k: A.SwitchHeader("scn", _v(k + 20), 0),
]
CASE_HEADERS = [
    lambda k: A.CaseHeader("val", ("i", k)),
    lambda k: A.CaseHeader("op", ">", "int", ("i", k)),
    lambda k: A.CaseHeader("val", ("c", f"CASE_{k}")),
    lambda k: A.CaseHeader("op", "<=", "valueof", _v(k + 70)),
    lambda k: A.CaseHeader("menu2", ("i", k)),
    lambda k: A.CaseHeader("menu", ("s", f"m{k}")),
    lambda k: A.CaseHeader("op", "==", "int", ("i", k)),
]
ASSIGNS = [
    lambda k: A.Assign("reg", _v(k + 30), None, "=", "int", ("i", k)),
    lambda k: A.Assign("reg", _v(k + 30), None, "+=", "int", ("i", 1)),
    lambda k: A.Assign("reg", _v(k + 30), None, "=", "valueof", _v(k + 31)),
    lambda k: A.Assign("reg", _v(k + 30), k % 4, "=", "int", ("i", 1)),
    lambda k: A.Assign("clear", _v(k + 30)),
    lambda k: A.Assign("scn", _v(k + 30), k, 2),
    lambda k: A.Assign("reg", ("c", PERF), k % 4, "=", "int", ("i", 0)),
    lambda k: A.Assign("dmode", ("c", f"DUNGEON_{k}"), ("c", "DMODE_OPEN")),
    lambda k: A.Assign("advlog", ("i", k)),
    lambda k: A.Assign("reset_dr"),
    lambda k: A.Assign("init", _v(k + 30)),
    lambda k: A.Assign("reset_scn", _v(k + 30)),
]
CTX_KINDS = ["actor", "object", "performer"]

MACRO_NAME = "mm"


def the_macro():
    """macro used by the 'mcall' leaf: parameter substitution + early return + private label."""
    return A.Macro(MACRO_NAME, ["$p"], [
        A.Op("mop_a", [("c", "$p")]),
        A.If([A.IfBranch(False, [A.Cond("op", ("c", "$p"), "==", "int", ("i", 9))], [A.Ctrl("return")])]),
        A.Op("mop_b", []),
    ])


REGULAR_CASE_HEADERS = [f for f in CASE_HEADERS if f(0).kind in ("val", "op")]
MENU_CASE_HEADERS = [f for f in CASE_HEADERS if f(0).kind in ("menu", "menu2")]
MENU_SWITCH = lambda k: A.SwitchHeader("opcall", "message_SwitchMenu", (("i", k), ("i", 1)))  # noqa: E731


class Instantiator:
    def __init__(self, seed=0, compatible_cases=False):
        """compatible_cases: pair menu/menu2 case headers only with message_SwitchMenu headers (what the
        specification ties them to, and what the decompiler's case table knows)."""
        self.seed = seed
        self.compatible_cases = compatible_cases
        self.reset()

    def switch_header(self):
        k = self.n_sw
        self.n_sw += 1
        if self.compatible_cases and (self.seed + k) % (len(SWITCH_HEADERS) + 1) == len(SWITCH_HEADERS):
            self.menu_switch = True
            return MENU_SWITCH(k)
        self.menu_switch = False
        return SWITCH_HEADERS[(self.seed + k) % len(SWITCH_HEADERS)](k)

    def case_header(self):
        c = self.n_case
        self.n_case += 1
        if not self.compatible_cases:
            return CASE_HEADERS[(self.seed + c) % len(CASE_HEADERS)](c)
        table = MENU_CASE_HEADERS if self.menu_switch else REGULAR_CASE_HEADERS
        return table[(self.seed + c) % len(table)](c)

    def reset(self):
        self.n_op = 0
        self.n_cond = 0
        self.n_sw = 0
        self.n_case = 0
        self.n_assign = 0
        self.n_ctx = 0
        self.uses_macro = False
        self.menu_switch = False

    def op(self, prefix="op"):
        self.n_op += 1
        return f"{prefix}{self.n_op}"

    def cond(self):
        k = self.n_cond
        self.n_cond += 1
        return COND_FORMS[(self.seed + k) % len(COND_FORMS)](k)

    def ctxkind(self):
        k = self.n_ctx
        self.n_ctx += 1
        return CTX_KINDS[(self.seed + k) % 3], ("i", k + 1) if (self.seed + k) % 2 == 0 else ("c", f"ACTOR_{k}")

    def body(self, skel):
        return [self.stmt(s) for s in skel]

    def stmt(self, s):
        kind = s[0]
        if kind == "op":
            return A.Op(self.op(), [])
        if kind == "opctx":
            return A.Op(self.op(), [("i", self.n_op)], ctx=self.ctxkind())
        if kind == "with_op":
            k, t = self.ctxkind()
            return A.With(k, t, A.Op(self.op(), []))
        if kind == "with_return":
            k, t = self.ctxkind()
            return A.With(k, t, A.Ctrl("return"))
        if kind == "with_jump":
            k, t = self.ctxkind()
            return A.With(k, t, A.Jump(f"L{s[1]}"))
        if kind == "assign":
            k = self.n_assign
            self.n_assign += 1
            return ASSIGNS[(self.seed + k) % len(ASSIGNS)](k)
        if kind == "label":
            return A.Label(f"L{s[1]}")
        if kind == "jump":
            return A.Jump(f"L{s[1]}")
        if kind == "call":
            return A.Call(f"L{s[1]}")
        if kind in ("return", "end", "hold", "continue", "break_loop", "break"):
            return A.Ctrl(kind)
        if kind == "msw":
            k = self.n_sw
            self.n_sw += 1
            mk = "message_SwitchTalk" if (self.seed + k) % 2 == 0 else "message_SwitchMonologue"
            return A.MsgSwitch(mk, _v(k + 40), [(("i", 1), ("s", f"t{k}")), (("c", "K2"), ("l", (("english", f"e{k}"),)))],
                               ("s", f"d{k}"))
        if kind == "mcall":
            self.uses_macro = True
            self.n_op += 1
            return A.MacroCall(MACRO_NAME, [("i", 100 + self.n_op)])
        if kind == "if":
            branches = []
            for neg, nc, b in s[1]:
                conds = [self.cond() for _ in range(nc)]
                branches.append(A.IfBranch(neg, conds, self.body(b)))
            eb = None if s[2] is None else self.body(s[2])
            return A.If(branches, eb)
        if kind == "switch":
            header = self.switch_header()
            menu = self.menu_switch
            items = []
            for i, b in enumerate(s[2]):
                self.menu_switch = menu
                if s[1] == i:
                    items.append(A.SwitchItem(None, self.body(b)))
                else:
                    h = self.case_header()
                    items.append(A.SwitchItem(h, self.body(b)))
            return A.Switch(header, items)
        if kind == "forever":
            return A.Forever(self.body(s[1]))
        if kind == "while":
            return A.While(False, self.cond(), self.body(s[1]))
        if kind == "whilenot":
            return A.While(True, self.cond(), self.body(s[1]))
        if kind == "for":
            init = A.Op(self.op("init"), [])
            cond = self.cond()
            incr = A.Op(self.op("incr"), [])
            return A.For(init, cond, incr, self.body(s[1]))
        raise ValueError(s)


def _label_events(skel, out):
    """Pre-order list of (kind 'def'|'use', k)."""
    for s in skel:
        k = s[0]
        if k == "label":
            out.append(("def", s[1]))
        elif k in ("jump", "call", "with_jump"):
            out.append(("use", s[1]))
        elif k == "if":
            for _, _, b in s[1]:
                _label_events(b, out)
            if s[2] is not None:
                _label_events(s[2], out)
        elif k == "switch":
            for b in s[2]:
                _label_events(b, out)
        elif k in ("forever", "while", "whilenot", "for"):
            _label_events(s[1], out)


def labels_ok(skel, external_defs=(), nlabels=2):
    """Each label defined at most once, every use defined, labels numbered by first appearance."""
    ev = []
    _label_events(skel, ev)
    if not ev:
        return True
    defs = {}
    first_seen = []
    for kind, k in ev:
        if k not in first_seen:
            first_seen.append(k)
        if kind == "def":
            defs[k] = defs.get(k, 0) + 1
            if defs[k] > 1:
                return False
    if first_seen != sorted(first_seen) or first_seen[0] != 0:
        return False
    for kind, k in ev:
        if kind == "use" and k not in defs and k not in external_defs:
            return False
    return True


SECOND_ROUTINES = ["none", "plain", "target_label", "jump_back", "alias", "coro", "for_actor", "cond_tail"]


def programs(alpha, max_n, depth, seed=0, seconds=("none",), min_n=0, compatible_cases=False):
    """Yield (case_id, Program) for all bodies with min_n..max_n nodes x second-routine variants."""
    inst = Instantiator(seed, compatible_cases)
    for n in range(min_n, max_n + 1):
        for skel in bodies(alpha, n, False, False, depth):
            for second in seconds:
                ext = ()
                if not labels_ok(skel):
                    continue
                if second == "jump_back":
                    ev = []
                    _label_events(skel, ev)
                    if ("def", 0) not in ev:
                        continue
                inst.reset()
                body = inst.body(skel)
                p = build_program(inst, body, second)
                yield (alpha.name, n, second, skel), p


def build_program(inst, body, second):
    macros = [the_macro()] if inst.uses_macro else []
    if second == "none":
        routines = [A.Routine("def", 0, body)]
    elif second == "plain":
        routines = [A.Routine("def", 0, body), A.Routine("def", 1, [A.Op("second_op", [])])]
    elif second == "target_label":
        routines = [A.Routine("def", 0, list(body) + [A.Jump("X")]),
                    A.Routine("def", 1, [A.Op("second_a", []), A.Label("X"), A.Op("second_b", []), A.Ctrl("hold")])]
    elif second == "jump_back":
        routines = [A.Routine("def", 0, body),
                    A.Routine("def", 1, [A.Op("second_a", []), A.Jump("L0")])]
    elif second == "alias":
        routines = [A.Routine("def", 0, body), A.Routine("def", 1, None),
                    A.Routine("for", 2, [A.Op("third_op", [])], target_kind="performer", target=("i", 7))]
    elif second == "coro":
        routines = [A.Routine("coro", None, body, name="CORO_A"),
                    A.Routine("coro", None, [A.Op("second_op", []), A.Ctrl("return")], name="CORO_B")]
    elif second == "cond_tail":
        # both further routines end in a label that only conditional jumps target (each needs its own appended Return)
        routines = [A.Routine("def", 0, body),
                    A.Routine("def", 1, [A.While(True, A.Cond("special", False, "edit"), [A.Op("second_op", [])])]),
                    A.Routine("def", 2, [A.Op("third_a", []), A.Call("T"), A.Op("third_b", []), A.Label("T")])]
    elif second == "for_actor":
        routines = [A.Routine("for", 0, body, target_kind="actor", target=("c", "ACTOR_X")),
                    A.Routine("for", 1, [A.Ctrl("hold")], target_kind="object", target=("i", 3))]
    else:
        raise ValueError(second)
    return A.Program(routines, macros)


def count(alpha, max_n, depth):
    return [len(bodies(alpha, n, False, False, depth)) for n in range(max_n + 1)]


# ------------------------------------------------------------------ G-chains: if / elseif / else chains with leaving blocks
CHAIN_BODIES = ["empty", "op", "two_ops", "end", "return", "jump_after", "op_jump_after"]


def chain_programs(seed=0, compatible_cases=False, big=False):
    """All if/elseif(/elseif)/else chains whose blocks are empty / plain / leave the routine / jump behind the chain,
    with or-groups of 1-3 conditions, followed by a label, an operation and a terminator."""
    inst = Instantiator(seed, compatible_cases)

    def mk_body(kind):
        if kind == "empty":
            return []
        if kind == "op":
            return [A.Op(inst.op(), [])]
        if kind == "two_ops":
            return [A.Op(inst.op(), []), A.Op(inst.op(), [])]
        if kind == "end":
            return [A.Op(inst.op(), []), A.Ctrl("end")]
        if kind == "return":
            return [A.Ctrl("return")]
        if kind == "jump_after":
            return [A.Jump("AFTER")]
        if kind == "op_jump_after":
            return [A.Op(inst.op(), []), A.Jump("AFTER")]
        raise ValueError(kind)
    for nb in (2, 3):
        neg_sets = list(itertools.product((False, True), repeat=nb))
        if nb == 3 and not big:
            neg_sets = [(False, False, False), (False, True, False), (True, False, True)]
        for kinds in itertools.product(CHAIN_BODIES, repeat=nb):
            for negs in neg_sets:
                for else_kind in (None,) + tuple(CHAIN_BODIES if (big or nb == 2) else CHAIN_BODIES[:4]):
                    uses_after = "jump_after" in kinds or "op_jump_after" in kinds or else_kind in ("jump_after", "op_jump_after")
                    inst.reset()
                    branches = []
                    for bi, (kd, ng) in enumerate(zip(kinds, negs)):
                        nconds = 1 + (bi + len(kinds) + (1 if ng else 0)) % 3
                        branches.append(A.IfBranch(ng, [inst.cond() for _ in range(nconds)], mk_body(kd)))
                    eb = None if else_kind is None else mk_body(else_kind)
                    body = [A.Op(inst.op("before"), []), A.If(branches, eb), A.Op(inst.op("between"), [])]
                    if uses_after:
                        body.append(A.Label("AFTER"))
                    body += [A.Op(inst.op("after"), []), A.Ctrl("hold")]
                    yield ("chain", kinds, negs, else_kind), A.Program([A.Routine("def", 0, body)])


LENGTH_BLOCKS = ("switch", "switch_default", "if_else", "if_elseif", "if_elseif_else", "switch3", "switch_fallthrough")
LENGTH_PLACEMENTS = ("in_forever", "before_forever", "in_while", "before_while", "in_for", "in_forever_after_op",
                     "in_while_in_forever", "in_if_in_forever", "after_forever_with_break", "in_forever_with_break")


def length_programs(seed=0, compatible_cases=True, max_len=6):
    """G-lengths: a switch / if whose branch bodies have different lengths (0..2 against 0..max_len, both orders), as the
    body of a loop or directly in front of a loop.  The decompiler's searches advance all branches of a block one edge
    per round, so which branch reaches a join (or laps a loop) first depends on the lengths."""
    inst = Instantiator(seed, compatible_cases)

    def ops(n):
        return [A.Op(inst.op(), []) for _ in range(n)]

    def block(kind, l1, l2):
        if kind.startswith("switch"):
            items = [A.SwitchItem(inst.case_header(), ops(l1) + [A.Ctrl("break")]),
                     A.SwitchItem(inst.case_header(), ops(l2) + [A.Ctrl("break")])]
            if kind == "switch_default":
                items.append(A.SwitchItem(None, ops(1) + [A.Ctrl("break")]))
            if kind == "switch3":
                items.append(A.SwitchItem(inst.case_header(), ops(1) + [A.Ctrl("break")]))
                items.append(A.SwitchItem(None, ops(2) + [A.Ctrl("break")]))
            if kind == "switch_fallthrough":
                # first case falls through into the second
                items[0] = A.SwitchItem(items[0].header, items[0].body[:-1])
            return A.Switch(inst.switch_header(), items)
        if kind == "if_else":
            return A.If([A.IfBranch(False, [inst.cond()], ops(l1))], ops(l2))
        if kind == "if_elseif":
            return A.If([A.IfBranch(False, [inst.cond()], ops(l1)), A.IfBranch(False, [inst.cond()], ops(l2))], None)
        return A.If([A.IfBranch(False, [inst.cond()], ops(l1)), A.IfBranch(True, [inst.cond()], ops(l2))], ops(1))
    pairs = []
    for a in (0, 1, 2):
        for b in range(0, max_len + 1):
            for p in ((a, b), (b, a)):
                if p not in pairs:
                    pairs.append(p)
    for kind in LENGTH_BLOCKS:
        for place in LENGTH_PLACEMENTS:
            for l1, l2 in pairs:
                inst.reset()
                blk = block(kind, l1, l2)
                if place == "in_forever":
                    body = [A.Forever([blk])]
                elif place == "in_forever_after_op":
                    body = [A.Forever(ops(1) + [blk])]
                elif place == "before_forever":
                    body = [blk, A.Forever(ops(1))]
                elif place == "in_while_in_forever":
                    body = [A.Forever([A.While(False, inst.cond(), [blk])] + ops(1))]
                elif place == "in_if_in_forever":
                    body = [A.Forever([A.If([A.IfBranch(False, [inst.cond()], [blk])], None)] + ops(1))]
                elif place == "after_forever_with_break":
                    body = [A.Forever(ops(1) + [A.If([A.IfBranch(False, [inst.cond()], [A.Ctrl("break_loop")])], None)]), blk,
                            A.Op(inst.op("after"), [])]
                elif place == "in_forever_with_break":
                    body = [A.Forever([blk, A.If([A.IfBranch(True, [inst.cond()], [A.Ctrl("break_loop")])], None)]),
                            A.Op(inst.op("after"), [])]
                elif place == "in_while":
                    body = [A.While(False, inst.cond(), [blk]), A.Op(inst.op("after"), [])]
                elif place == "before_while":
                    body = [blk, A.While(True, inst.cond(), ops(1)), A.Op(inst.op("after"), [])]
                else:
                    body = [A.For(A.Op(inst.op("init"), []), inst.cond(), A.Op(inst.op("incr"), []), [blk]), A.Op(inst.op("after"), [])]
                yield ("lengths", kind, place, l1, l2), A.Program([A.Routine("def", 0, body)])


SWITCH_BODIES = ("break", "op_break", "op_return", "jump_x", "op_jump_x", "fall", "op_fall", "call_x_break", "call_d_break")


def switch_programs(seed=0, compatible_cases=True, big=False):
    """G-switch: every switch with 3 cases (big: also 4 cases over 5 body kinds) x every body kind per case (only break,
    op + break, op + return, only a jump to a label behind the switch, op + such a jump, empty = falls through, op that falls
    through, call to a label behind the switch / inside the default block + break) x default (none / op + break at the end or in front / grouped with the last case), followed by an op, the label, an op and a
    terminator.  Non-adjacent cases with the same target, cases that leave the routine (no common end) and shared jump targets
    are what the decompiler's case grouping and its switch writer have to tell apart."""
    inst = Instantiator(seed, compatible_cases)

    def mk(kind):
        if kind == "break":
            return [A.Ctrl("break")]
        if kind == "op_break":
            return [A.Op(inst.op(), []), A.Ctrl("break")]
        if kind == "op_return":
            return [A.Op(inst.op(), []), A.Ctrl("return")]
        if kind == "jump_x":
            return [A.Jump("X")]
        if kind == "op_jump_x":
            return [A.Op(inst.op(), []), A.Jump("X")]
        if kind == "fall":
            return []
        if kind == "call_x_break":
            return [A.Call("X"), A.Ctrl("break")]
        if kind == "call_d_break":
            return [A.Call("D"), A.Ctrl("break")]     # D: a label inside the default block (default == "last" only)
        return [A.Op(inst.op(), [])]
    plans = [(3, SWITCH_BODIES)]
    if big:
        plans.append((4, ("break", "op_break", "op_return", "jump_x", "op_fall")))
    for ncases, kinds_alpha in plans:
        for kinds in itertools.product(kinds_alpha, repeat=ncases):
            for default in ("none", "last", "grouped", "first"):
                if kinds[-1] == "fall" and default != "last":
                    continue   # a switch that ends in an empty case is statically meaningless (C10's business)
                if "call_d_break" in kinds and default not in ("last", "first"):
                    continue
                if default == "first" and ncases == 4:
                    continue
                inst.reset()
                items = []
                if default == "first":
                    items.append(A.SwitchItem(None, [A.Label("D"), A.Op(inst.op("dflt"), []), A.Ctrl("break")]))
                for ci, kd in enumerate(kinds):
                    if default == "grouped" and ci == ncases - 1:
                        items.append(A.SwitchItem(inst.case_header(), []))
                        items.append(A.SwitchItem(None, mk(kd)))
                    else:
                        items.append(A.SwitchItem(inst.case_header(), mk(kd)))
                if default == "last":
                    items.append(A.SwitchItem(None, [A.Label("D"), A.Op(inst.op("dflt"), []), A.Ctrl("break")]))
                body = [A.Op(inst.op("before"), []), A.Switch(inst.switch_header(), items), A.Op(inst.op("between"), []),
                        A.Label("X"), A.Op(inst.op("after"), []), A.Ctrl("hold")]
                yield ("switches", kinds, default), A.Program([A.Routine("def", 0, body)])


CROSS_PRE = ("none", "op", "return", "op_return", "label_jump")
CROSS_POST = ("op_hold", "jump_end", "jump_end_op", "jump_mid", "nothing", "return", "if", "while", "case_break")
CROSS_KINDS = ("jump", "call", "cond_jump", "two_jumps")


def cross_programs(seed=0, compatible_cases=True):
    """G-cross: a label of routine 1 that is only reached from routine 0 (jump / call / conditional jump / two jumps), in front of it
    nothing / an op / a `return` (the label is unreachable inside its own routine) and behind it every kind of continuation,
    including the jump to a label at the routine end that per-routine jump elimination has to keep."""
    inst = Instantiator(seed, compatible_cases)
    for kind in CROSS_KINDS:
        for pre in CROSS_PRE:
            for post in CROSS_POST:
                inst.reset()
                if kind == "jump":
                    r0 = [A.Op("r0_a", []), A.Jump("X")]
                elif kind == "call":
                    r0 = [A.Op("r0_a", []), A.Call("X"), A.Op("r0_b", []), A.Ctrl("end")]
                elif kind == "cond_jump":
                    r0 = [A.If([A.IfBranch(False, [inst.cond()], [A.Jump("X")])], None), A.Op("r0_b", []), A.Ctrl("end")]
                else:
                    r0 = [A.If([A.IfBranch(True, [inst.cond()], [A.Op("r0_a", []), A.Jump("X")])], [A.Jump("X")])]
                r1 = {"none": [], "op": [A.Op("r1_pre", [])], "return": [A.Ctrl("return")],
                      "op_return": [A.Op("r1_pre", []), A.Ctrl("return")],
                      "label_jump": [A.Label("P"), A.Op("r1_pre", []), A.If([A.IfBranch(False, [inst.cond()], [A.Jump("P")])], None), A.Ctrl("hold")]}[pre]
                r1 = list(r1) + [A.Label("X")]
                if post == "op_hold":
                    r1 += [A.Op("r1_x", []), A.Ctrl("hold")]
                elif post == "jump_end":
                    r1 += [A.Jump("E"), A.Op("r1_skipped", []), A.Label("E")]
                elif post == "jump_end_op":
                    r1 += [A.Jump("E"), A.Op("r1_skipped", []), A.Label("E"), A.Op("r1_last", [])]
                elif post == "jump_mid":
                    r1 += [A.Jump("M"), A.Op("r1_skipped", []), A.Label("M"), A.Op("r1_mid", []), A.Ctrl("end")]
                elif post == "return":
                    r1 += [A.Ctrl("return")]
                elif post == "if":
                    r1 += [A.If([A.IfBranch(False, [inst.cond()], [A.Op("r1_then", [])])], [A.Op("r1_else", [])]), A.Ctrl("end")]
                elif post == "while":
                    r1 += [A.While(True, inst.cond(), [A.Op("r1_body", [])])]
                elif post == "case_break":
                    r1 += [A.Switch(inst.switch_header(), [A.SwitchItem(inst.case_header(), [A.Op("r1_c", []), A.Ctrl("break")])])]
                yield ("cross", kind, pre, post), A.Program([A.Routine("def", 0, r0), A.Routine("def", 1, r1)])
