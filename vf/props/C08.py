"""C08 — compile-time source map: every emitted op maps to where it was written.

(I + P) programs of G-prog in several layouts and G-macro cases in several file layouts; the relation
op <-> AST node comes from the product Ref(ast) x Machine(compiled) (the C01 / C05 exploration).
"""
from __future__ import annotations

import itertools

import os
import shutil
import tempfile
import time

from .. import esast as A
from .. import gen_forms, gen_macro as GM, gen_prog as G
from .. import impl, lts, refsem, runner
from . import C01, C05

ID = "C08"
LEVEL = "exploration"
_SEED = 0

STYLES = {
    "default": A.Style(),
    "compact": A.Style(multiline=False),
    "tabs": A.Style(indent="\t"),
    "wide": A.Style(indent="       "),
}


def all_positions(nodes):
    """Every recorded position of statements / conditions / headers under the given statement lists."""
    out = set()

    def visit(stmts):
        for s in stmts:
            if s.pos is not None:
                out.add(tuple(s.pos))
            if isinstance(s, A.If):
                for b in s.branches:
                    if b.pos:
                        out.add(tuple(b.pos))
                    for c in b.conds:
                        out.add(tuple(c.pos))
                    visit(b.body)
                if s.else_body is not None:
                    visit(s.else_body)
                    if s.else_pos:
                        out.add(tuple(s.else_pos))
            elif isinstance(s, A.Switch):
                out.add(tuple(s.header.pos))
                for it in s.items:
                    out.add(tuple(it.pos))
                    if it.header is not None:
                        out.add(tuple(it.header.pos))
                    visit(it.body)
            elif isinstance(s, A.MsgSwitch):
                for p in s.xpos or []:
                    out.add(tuple(p))
            elif isinstance(s, (A.Forever,)):
                visit(s.body)
            elif isinstance(s, A.While):
                out.add(tuple(s.cond.pos))
                visit(s.body)
            elif isinstance(s, A.For):
                out.add(tuple(s.cond.pos))
                visit([s.init, s.incr])
                visit(s.body)
            elif isinstance(s, A.With):
                visit([s.stmt])
    visit(nodes)
    return out


def origin_positions(origin):
    """Acceptable positions for an op whose reference node has this origin."""
    if isinstance(origin, tuple):           # (MsgSwitch, case index)
        s, i = origin
        return {tuple(s.xpos[i])}
    acc = {tuple(origin.pos)} if origin.pos is not None else set()
    return acc


def jump_statement_pairs(ref, tau_chains):
    """Relate Jump ops to the jump / continue / break / break_loop / return-in-macro statements they were written for:
    where a transition passes as many statement-made silent steps on the reference side as Jump ops on the machine
    side, they correspond in order (no jump was eliminated and none is synthetic on that stretch)."""
    pairs = set()
    for left, right in tau_chains or ():
        stmts = [n for n in left if isinstance(ref.origin.get(n), (A.Jump, A.Ctrl))]
        jumps = [n for n in right if n[0] == "m"]
        if stmts and len(stmts) == len(jumps):
            for a, b in zip(stmts, jumps):
                pairs.add((a, b))
    return pairs


def check_map(comp, ref, relation, main_prog, files_of_macros, main_abs, source_for_report, tau_chains=None):
    """All C08 obligations for one compilation. files_of_macros: macro name -> relative file (None = main)."""
    viols = []
    sm = comp.source_map
    detail0 = {"source": source_for_report}
    ops_by_node = {}
    all_ops = []
    for r, ops in enumerate(comp.routine_ops):
        for i, op in enumerate(ops):
            ops_by_node[("m", r, i)] = op
            all_ops.append(op)
    # (a) every emitted op has an entry
    for op in all_ops:
        if sm.get_op_line_and_col(op.offset) is None:
            viols.append({"kind": "op-without-entry", "detail": {**detail0, "op": f"{op.op_code.name}@{op.offset}"}})
    if viols:
        return viols
    emitted = sorted(op.offset for op in all_ops)
    # relation: machine node -> set of reference nodes
    refs_of = {}
    for a, b in relation:
        if b[0] == "m":
            refs_of.setdefault(b, set()).add(a)
    # every simple statement written in a routine registers (at least) one op number at its own position, whether or not
    # that op survives jump elimination: the map must hold an entry with exactly that position
    direct_positions = {(m_.line, m_.column) for k_, m_ in sm._mappings.items()}
    for r in main_prog.routines:
        if r.body is None:
            continue
        for st in A.walk_stmts(r.body):
            if isinstance(st, (A.Op, A.Assign, A.Jump, A.Call, A.Ctrl, A.With)) and st.pos is not None:
                if tuple(st.pos) not in direct_positions:
                    viols.append({"kind": "statement-without-entry-at-its-position", "detail": {
                        **detail0, "statement": repr(st)[:80], "position": list(st.pos)}})
    if viols:
        return viols
    routine_positions = [all_positions(r.body) if r.body is not None else set() for r in main_prog.routines]
    macro_positions = {m.name: all_positions(m.body) for m in ref_macros(ref)}
    exp_ops = {}   # expansion id -> list of (offset, mapping)
    for node, op in ops_by_node.items():
        name = op.op_code.name
        direct = sm.get_op_line_and_col__direct(op.offset)
        macro = sm.get_op_line_and_col__macros(op.offset)
        if direct is not None and macro is not None:
            viols.append({"kind": "both-direct-and-macro-entry", "detail": {**detail0, "op": f"{name}@{op.offset}"}})
            continue
        rnodes = refs_of.get(node, set())
        with_origin = [rn for rn in rnodes if rn in ref.origin]
        exps = {ref.exp[rn]["id"] if rn in ref.exp else None for rn in with_origin}
        if not with_origin:
            # synthetic op (jump glue, dummy return) or unreachable code: must point at some statement start
            mp = direct or macro
            pos = (mp.line, mp.column)
            if direct is not None:
                pool = routine_positions[node[1]] | {tuple(main_prog.routines[node[1]].pos)}
                if name in ("Jump", "Return") and rnodes == set() or True:
                    if pos not in pool and not any(pos in p for p in routine_positions):
                        viols.append({"kind": "synthetic-op-not-at-a-statement", "detail": {
                            **detail0, "op": f"{name}@{op.offset}", "entry": list(pos)}})
            else:
                pool = macro_positions.get(macro.macro_name)
                if pool is None or pos not in pool:
                    viols.append({"kind": "synthetic-macro-op-not-at-a-statement", "detail": {
                        **detail0, "op": f"{name}@{op.offset}", "entry": [macro.macro_name, mp.line, mp.column]}})
                # an op the compiler adds on its own (the Return that closes a routine behind an expansion) and maps into a
                # macro is an op of that expansion like any other: its return address lies behind it, and it is not the op
                # that carries the call position unless it is the first op with an entry of this macro call
                if not isinstance(macro.return_addr, int) or macro.return_addr <= op.offset:
                    viols.append({"kind": "return-address-not-after-synthetic-op", "detail": {
                        **detail0, "op": f"{name}@{op.offset}", "return_addr": macro.return_addr}})
                elif macro.called_in is not None and any(
                        (mp2 := sm.get_op_line_and_col__macros(o2.offset)) is not None and mp2.called_in is not None
                        and tuple(mp2.called_in) == tuple(macro.called_in) and o2.offset != op.offset for o2 in all_ops):
                    viols.append({"kind": "call-site-on-two-ops", "detail": {**detail0, "op": f"{name}@{op.offset}",
                                                                             "called_in": list(macro.called_in)}})
            continue
        if len(exps) > 1:
            continue  # the same compiled op serves several expansions / contexts: cannot be attributed
        exp_id = next(iter(exps))
        expected = set()
        for rn in with_origin:
            expected |= origin_positions(ref.origin[rn])
            o = ref.origin[rn]
            # switch and case ops may point at the keyword or at the header expression
            if isinstance(o, A.CaseHeader):
                for r_ in main_prog.routines:
                    pass
        if exp_id is None:
            if direct is None:
                viols.append({"kind": "direct-op-has-macro-entry", "detail": {**detail0, "op": f"{name}@{op.offset}"}})
                continue
            pos = (direct.line, direct.column)
            expected |= keyword_alternatives(main_prog, with_origin, ref)
            if pos not in expected:
                viols.append({"kind": "wrong-position", "detail": {**detail0, "op": f"{name}@{op.offset}", "entry": list(pos),
                                                                 "expected_one_of": sorted(expected)}})
        else:
            if macro is None:
                viols.append({"kind": "macro-op-has-direct-entry", "detail": {**detail0, "op": f"{name}@{op.offset}"}})
                continue
            exp = ref.expansions[exp_id]
            m = exp["macro"]
            want_file = files_of_macros.get(m.name)
            pos = (macro.line, macro.column)
            expected |= keyword_alternatives_macro(m, with_origin, ref)
            bad = []
            if macro.relpath_included_file != want_file:
                bad.append(("file", macro.relpath_included_file, want_file))
            if macro.macro_name != m.name:
                bad.append(("macro", macro.macro_name, m.name))
            if pos not in expected:
                bad.append(("position", list(pos), sorted(expected)))
            if bad:
                viols.append({"kind": "wrong-macro-entry", "detail": {**detail0, "op": f"{name}@{op.offset}", "differences": bad}})
            exp_ops.setdefault(exp_id, []).append((op.offset, macro))
    if viols:
        return viols
    # (c) per expansion: call site on the first op, common return address within bounds
    def in_exp_or_nested(eid, target):
        rec = ref.expansions[eid]
        while rec is not None:
            if rec["id"] == target:
                return True
            rec = rec["parent"]
        return False
    for eid, lst in exp_ops.items():
        exp = ref.expansions[eid]
        lst.sort()
        # offsets of observable ops of this expansion including nested expansions
        offs_all = sorted(off for e2, l2 in exp_ops.items() if in_exp_or_nested(e2, eid) for off, _ in l2)
        own = [mp for _, mp in lst]
        rets = {mp.return_addr for mp in own}
        if len(rets) != 1:
            viols.append({"kind": "return-address-not-uniform", "detail": {**detail0, "macro": exp["macro"].name,
                                                                            "addresses": sorted(map(repr, rets))}})
            continue
        r = next(iter(rets))
        hi = max(offs_all)
        outside_after = [o for o in emitted if o > hi and not any(o == off for off in offs_all)
                         and is_observable_outside(o, exp_ops, eid, in_exp_or_nested)]
        if r is None or not isinstance(r, int) or r <= hi:
            viols.append({"kind": "return-address-inside-expansion", "detail": {
                **detail0, "macro": exp["macro"].name, "return_addr": r, "max_offset_of_expansion": hi}})
        elif outside_after and r > min(outside_after):
            viols.append({"kind": "return-address-past-next-op", "detail": {
                **detail0, "macro": exp["macro"].name, "return_addr": r, "next_op_outside": min(outside_after)}})
        # call site: the first emitted op of the expansion (nested ones included) carries it
        first_off = offs_all[0]
        first_mp = sm.get_op_line_and_col__macros(first_off)
        call = exp["call"]
        parent = exp["parent"]
        call_file = files_of_macros.get(parent["macro"].name) if parent is not None else None
        want = (call_file, call.pos[0], call.pos[1])
        own_first = lst[0][0] == first_off
        if own_first:
            got = None if first_mp.called_in is None else tuple(first_mp.called_in)
            if got != want:
                viols.append({"kind": "wrong-call-site", "detail": {**detail0, "macro": exp["macro"].name,
                                                                     "called_in": got, "expected": want}})
        for off, mp in lst[1:]:
            if mp.called_in is not None and off != first_off:
                viols.append({"kind": "call-site-on-later-op", "detail": {**detail0, "macro": exp["macro"].name, "op_offset": off}})
                break
        # parameter mapping names the macro's parameters
        pm = own[0].parameter_mapping
        if set(pm.keys()) != set(exp["macro"].params):
            viols.append({"kind": "parameter-mapping-keys", "detail": {**detail0, "macro": exp["macro"].name,
                                                                       "keys": sorted(pm.keys())}})
    # (d) files named by macro entries == imported files that contributed ops
    named = {mp.relpath_included_file for _, mp in sm.collect_mappings__macros() if mp.relpath_included_file is not None}
    contributed = {files_of_macros.get(ref.expansions[eid]["macro"].name) for eid in exp_ops} - {None}
    # ops that are only silent (jumps) may add files the relation cannot see: demand contributed <= named <= all files
    if not contributed <= named or not named <= set(f for f in files_of_macros.values() if f is not None):
        viols.append({"kind": "included-files-differ", "detail": {**detail0, "named": sorted(named), "contributed": sorted(contributed)}})
    if main_abs is not None:
        from explorerscript.included_usage_map import IncludedUsageMap
        inc = IncludedUsageMap(sm, main_abs).included_files
        want_abs = {os.path.abspath(os.path.join(os.path.dirname(main_abs), f)) for f in named}
        if inc != want_abs:
            viols.append({"kind": "included-usage-map", "detail": {**detail0, "got": sorted(inc), "expected": sorted(want_abs)}})
    # (e) position marks: values recorded == values emitted
    emitted_marks = set()
    for op in all_ops:
        for p in op.params:
            c = lts.canon_param(p)
            if c[0] == "p":
                emitted_marks.add(c[1:])
    recorded = {(m.name, m.x_offset, m.y_offset, m.x_relative, m.y_relative) for m in sm.get_position_marks__direct()}
    recorded |= {(m.name, m.x_offset, m.y_offset, m.x_relative, m.y_relative) for _, _, m in sm.get_position_marks__macros()}
    if recorded != emitted_marks:
        viols.append({"kind": "position-marks-differ", "detail": {**detail0, "recorded": sorted(recorded), "emitted": sorted(emitted_marks)}})
    # one record per literal written as an argument in a routine of the compiled file (the same mark may be written twice)
    import collections
    written = collections.Counter()
    for r in main_prog.routines:
        if r.body is None:
            continue
        for st in A.walk_stmts(r.body):
            if isinstance(st, (A.Op, A.MacroCall)):
                for a in st.args:
                    if isinstance(a, tuple) and a and a[0] == "p":
                        written[tuple(a[1:])] += 1
    direct = collections.Counter((m.name, m.x_offset, m.y_offset, m.x_relative, m.y_relative) for m in sm.get_position_marks__direct())
    short = {k: (direct.get(k, 0), n) for k, n in written.items() if direct.get(k, 0) < n}
    if short and not viols:
        viols.append({"kind": "position-mark-literal-not-recorded", "detail": {
            **detail0, "recorded_vs_written": {repr(k): list(v) for k, v in short.items()}}})
    return viols


def is_observable_outside(off, exp_ops, eid, in_exp_or_nested):
    """offset belongs to an op that the relation attributes to something outside the expansion eid."""
    for e2, l2 in exp_ops.items():
        if any(off == o for o, _ in l2):
            return not in_exp_or_nested(e2, eid)
    return OUTSIDE_DIRECT.get(off, False)


OUTSIDE_DIRECT = {}


def ref_macros(ref):
    seen = {}
    for e in ref.expansions:
        seen[e["macro"].name] = e["macro"]
    return seen.values()


def keyword_alternatives(main_prog, ref_nodes, ref):
    """A switch op may point at 'switch', a case op at 'case' (DESIGN.md section 6)."""
    out = set()
    origins = [ref.origin[rn] for rn in ref_nodes]
    for r in main_prog.routines:
        if r.body is None:
            continue
        for s in A.walk_stmts(r.body):
            _kw(s, origins, out)
    return out


def keyword_alternatives_macro(m, ref_nodes, ref):
    out = set()
    origins = [ref.origin[rn] for rn in ref_nodes]
    for s in A.walk_stmts(m.body):
        _kw(s, origins, out)
    return out


def _kw(s, origins, out):
    if isinstance(s, A.Switch):
        if any(o is s.header for o in origins):
            out.add(tuple(s.pos))
        for it in s.items:
            if it.header is not None and any(o is it.header for o in origins):
                out.add(tuple(it.pos))


def run_prog_case(cid, prog):
    style_name = cid[-1]
    style = STYLES[style_name]
    text = A.render(prog, style)
    res, ctx = C01.check_program(cid, prog, text=text)
    if res.get("outcome") != "ok":
        # not compiled, excluded, or a C01 violation: not C08's business
        return {"outcome": "skipped:" + str(res.get("outcome"))}
    comp, ref = ctx["comp"], ctx["ref"]
    OUTSIDE_DIRECT.clear()
    for op in (o for r in comp.routine_ops for o in r):
        if comp.source_map.get_op_line_and_col__direct(op.offset) is not None:
            OUTSIDE_DIRECT[op.offset] = True
    files = {m.name: None for m in prog.macros}
    viols = check_map(comp, ref, ctx["relation"], prog, files, None, text, ctx.get("tau_chains"))
    out = {"outcome": "violation" if viols else "ok", "states": res["states"], "transitions": res["transitions"],
           "nt": cid if len(comp.routine_ops[0]) > 1 else None}
    if viols:
        out["viol"] = viols
    elif hash(repr(cid)) % 5000 == 0:
        out["sample"] = {"source": text, "map": comp.source_map.serialize()[:400]}
    return out


def run_macro_case(cid, spec):
    files, macros, main = GM.build_files(spec, _SEED)
    root = os.path.join(C05.workdir(), "proj")
    shutil.rmtree(root, ignore_errors=True)
    for rel, prog in files.items():
        for m in prog.macros:
            m.file = None if rel == "main.exps" else rel
    texts = C05.write_files(root, files)   # rendering records positions per file
    main_path = os.path.join(root, "main.exps")
    try:
        comp = impl.compile_es(texts["main.exps"], main_path)
    except Exception as e:
        return {"outcome": f"skipped:not-compiled:{type(e).__name__}"}
    ref_prog = A.Program(main.routines, macros)
    ref = refsem.ref_program(ref_prog, impl.PERF)
    m, entries = lts.machine(comp.routine_ops, jump_index_last=True)
    relation = set()
    states = transitions = 0
    chains = []
    for a, b in zip(ref.entries, entries):
        ok, st, tr, rel, mm = lts.product(ref.lts, a, m, b, tau_chains=chains)
        states += st
        transitions += tr
        relation |= rel
        if not ok:
            return {"outcome": "skipped:behaviour-diff (C05)"}
    OUTSIDE_DIRECT.clear()
    for op in (o for r in comp.routine_ops for o in r):
        if comp.source_map.get_op_line_and_col__direct(op.offset) is not None:
            OUTSIDE_DIRECT[op.offset] = True
    fmap = {mm_.name: mm_.file for mm_ in macros}
    viols = check_map(comp, ref, relation, main, fmap, main_path, texts, chains)
    out = {"outcome": "violation" if viols else "ok", "states": states, "transitions": transitions, "nt": cid}
    if viols:
        out["viol"] = viols
    elif hash(repr(cid)) % 300 == 0:
        out["sample"] = {"files": texts, "macro_entries": {str(k): v.serialize() for k, v in list(comp.source_map.collect_mappings__macros())[:6]}}
    return out


def run_case(cid, case):
    if cid[0] == "macro":
        return run_macro_case(cid, case)
    return run_prog_case(cid, case)


def run(tier, seed):
    global _SEED
    t0 = time.time()
    _SEED = seed
    impl.warm()
    C05._BASE = tempfile.mkdtemp(prefix="vf_c08_")
    quick = tier == "quick"

    def make_cases():
        for style in STYLES:
            for cid, p in itertools.chain(gen_forms.form_programs(), G.cross_programs(seed, compatible_cases=False)):
                yield cid + (style,), p
            for cid, p in G.programs(G.FULL, 2, 3, seed, G.SECOND_ROUTINES):
                yield cid + (style,), p
        for style in (("default", "compact") if quick else tuple(STYLES)):
            for cid, p in G.programs(G.REDUCED if quick else G.FULL, 3, 3, seed, ("none",), min_n=3):
                yield cid + (style,), p
        yield from GM.cases(3 if quick else 4, seed, all_layouts=not quick)
    try:
        total = runner.explore(make_cases, run_case, timeout=30.0)
    finally:
        shutil.rmtree(C05._BASE, ignore_errors=True)
    return runner.finish(
        ID, LEVEL, tier, seed, total, t0,
        rule="G-forms and G-prog (FULL N<=2 x second routines in 4 layouts: indented, one line, tab-indented, wide; "
             + ("REDUCED N=3 in 2 layouts" if quick else "FULL N=3 in 4 layouts") + ") and G-macro (m<=" + ("3" if quick else "4, all layouts") +
             "); the product Ref(ast) x Machine(compiled) gives op <-> AST node; checked: every emitted op has an entry; a "
             "directly written op maps to the recorded start of its statement / condition / header (keyword accepted for "
             "switch and case ops); synthetic ops map to some statement start of their routine / macro; macro ops name the "
             "defining file, macro, position there, the call site on the first op of each expansion, one return address per "
             "expansion with max(offsets) < r <= next op outside; files named == files that contributed; IncludedUsageMap; "
             "recorded position-mark values == emitted ones; non-trivial = compiled routine with more than one op",
        assumptions=["positions are those recorded by the renderer of vf/esast.py (zero-based line, column as ANTLR counts it)",
                     "ops the relation cannot attribute to one AST node (unreachable code, glue jumps) are only required to "
                     "point at a statement start"],
        bounds={"tier": tier, "styles": list(STYLES)})
