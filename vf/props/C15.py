"""C15 — the compile CLI prints what the decompile CLI (and the docs) expect.

(I + P) both __main__ blocks are executed in-process (runpy; argv, stdout, exit status captured; module globals fresh
per run as in a real invocation) for G-forms / G-prog programs and for documented JSON shapes; a subset runs as real
subprocesses to bind the emulation to the real commands.
"""
from __future__ import annotations

import contextlib
import io
import json
import os
import runpy
import shutil
import subprocess
import sys
import tempfile
import time

from .. import decomp, esast as A, gen_forms, gen_prog as G
from .. import impl, lts, reader, refsem, runner
from . import C05, C16

ID = "C15"
LEVEL = "exploration"
SETTINGS = {"settings": {"performance_progress_list_var_name": impl.PERF,
                         "dungeon_mode_constants": {"open": impl.DMODE[1], "closed": impl.DMODE[0], "request": impl.DMODE[2],
                                                    "open_request": impl.DMODE[3]}}}


def run_cli(module, argv):
    """-> (exit status, stdout, stderr) of `python -m module argv...` emulated in-process."""
    out, err = io.StringIO(), io.StringIO()
    old_argv = sys.argv
    sys.argv = [module] + list(argv)
    status = 0
    try:
        with contextlib.redirect_stdout(out), contextlib.redirect_stderr(err):
            try:
                runpy.run_module(module, run_name="__main__")
            except SystemExit as e:
                status = e.code if isinstance(e.code, int) else (0 if e.code is None else 1)
            except BaseException as e:  # uncaught exception: the interpreter would print a traceback and exit 1
                status = 1
                err.write(f"{type(e).__name__}: {e}")
    finally:
        sys.argv = old_argv
    return status, out.getvalue(), err.getvalue()


def run_real(module, argv, cwd):
    p = subprocess.run([sys.executable, "-m", module] + list(argv), capture_output=True, text=True, cwd=cwd,
                       env=dict(os.environ, PYTHONPATH=impl.REPO))
    return p.returncode, p.stdout, p.stderr


def check_structure(doc):
    """The documented JSON structure of the compile output."""
    problems = []
    if not isinstance(doc, dict) or set(doc) != {"settings", "routines"}:
        return [f"top level keys {sorted(doc) if isinstance(doc, dict) else type(doc)}"]
    if doc["settings"] != SETTINGS["settings"]:
        problems.append("settings not echoed")
    for i, r in enumerate(doc["routines"]):
        t = r.get("type")
        want = {"type", "ops"}
        if t == "COROUTINE":
            want |= {"name"}
            if not isinstance(r.get("name"), str):
                problems.append(f"routine {i}: coroutine name {r.get('name')!r}")
        elif t in ("ACTOR", "OBJECT", "PERFORMER"):
            want |= {"target_id"}
            if not isinstance(r.get("target_id"), (int, str)) or isinstance(r.get("target_id"), bool):
                problems.append(f"routine {i}: target_id {r.get('target_id')!r}")
        elif t != "GENERIC":
            problems.append(f"routine {i}: type {t!r}")
        if set(r) != want:
            problems.append(f"routine {i}: keys {sorted(r)}")
        for j, op in enumerate(r.get("ops", [])):
            if set(op) != {"opcode", "params"} or not isinstance(op["opcode"], str):
                problems.append(f"op {i}.{j}: {op!r}"[:120])
                continue
            for p in op["params"]:
                if isinstance(p, bool) or not (isinstance(p, int) or (
                        isinstance(p, dict) and set(p) == {"type", "value"} and
                        p["type"] in ("FIXED_POINT", "CONSTANT", "CONST_STRING", "LANG_STRING", "POSITION_MARK"))):
                    problems.append(f"param of op {i}.{j}: {p!r}"[:120])
                elif isinstance(p, dict) and p["type"] == "POSITION_MARK":
                    v = p["value"]
                    if not (isinstance(v, dict) and set(v) == {"name", "x", "y"}):
                        problems.append(f"position mark of op {i}.{j}: {v!r}"[:120])
    return problems


def run_program_case(cid, prog, real=False):
    work = C05.workdir()
    text = A.render(prog)
    src = os.path.join(work, "prog.exps")
    with open(src, "w", encoding="utf-8") as f:
        f.write(text)
    settings = os.path.join(work, "settings.json")
    with open(settings, "w") as f:
        json.dump(SETTINGS, f)
    runner_fn = (lambda m, a: run_real(m, a, work)) if real else run_cli
    # the API result is the reference for offsets / targets
    try:
        comp = impl.compile_es(text, src)
        api_ok = True
    except Exception:
        api_ok = False
    st, out, err = runner_fn("explorerscript.cli.compile", [src, "--settings", settings])
    viols = []
    detail0 = {"source": text, "real_subprocess": real}
    if not api_ok:
        if st == 0:
            viols.append({"kind": "exit-0-on-failure", "detail": {**detail0, "stdout": out[:300]}})
        return finish(cid, viols, "compile-fails")
    if st != 0:
        viols.append({"kind": "exit-nonzero-on-success", "detail": {**detail0, "status": st, "stderr": err[-400:]}})
        return finish(cid, viols, "x")
    try:
        doc = json.loads(out)
    except Exception as e:
        viols.append({"kind": "stdout-not-json", "detail": {**detail0, "stdout": out[:300]}})
        return finish(cid, viols, "x")
    problems = check_structure(doc)
    if problems:
        viols.append({"kind": "undocumented-structure", "detail": {**detail0, "problems": problems[:6]}})
        return finish(cid, viols, "x")
    # jump parameters == 1-based position of the target
    pos = {}
    n = 0
    for r, ops in enumerate(comp.routine_ops):
        for i, op in enumerate(ops):
            n += 1
            pos[op.offset] = n
    flat_json = [op for r in doc["routines"] for op in r["ops"]]
    flat_api = [op for r in comp.routine_ops for op in r]
    if len(flat_json) != len(flat_api) or [len(r["ops"]) for r in doc["routines"]] != [len(r) for r in comp.routine_ops]:
        viols.append({"kind": "op-count-differs-from-api", "detail": detail0})
        return finish(cid, viols, "x")
    has_jump = False
    for k, (jop, aop) in enumerate(zip(flat_json, flat_api)):
        if aop.op_code.name in lts.JUMP_INDEX:
            has_jump = True
            want = pos[aop.params[-1]]
            got = jop["params"][-1] if jop["params"] else None
            if got != want:
                viols.append({"kind": "jump-param-is-not-the-target-position", "detail": {
                    **detail0, "op_position": k + 1, "opcode": jop["opcode"], "param": got, "target_position": want,
                    "json_ops": [f"{i + 1}: {o['opcode']} {o['params']}" for i, o in enumerate(flat_json)][:30]}})
                break
    # feed the output to the decompile command
    doc_path = os.path.join(work, "model.json")
    with open(doc_path, "w") as f:
        f.write(out)
    st2, out2, err2 = runner_fn("explorerscript.cli.decompile", [doc_path])
    if st2 != 0:
        viols.append({"kind": "decompile-rejects-compile-output", "detail": {**detail0, "status": st2, "stderr": err2[-400:]}})
        return finish(cid, viols, "x", has_jump)
    if not viols:
        # the printed text must be a program (the compiler accepts it) that behaves like the source; this also holds for
        # sources whose routines end without a terminator, which C02's input family does not contain
        cli_text = out2[:-1] if out2.endswith("\n") else out2
        try:
            impl.compile_es(cli_text)
        except Exception as e:
            viols.append({"kind": "round-trip-text-rejected", "detail": {**detail0, "cli_text": cli_text,
                                                                          "error": f"{type(e).__name__}: {e}"[:200]}})
        else:
            if behaves_like(prog, cli_text) is False:
                viols.append({"kind": "round-trip-behaves-differently", "detail": {**detail0, "cli_text": cli_text}})
    return finish(cid, viols, "ok", has_jump)


def behaves_like(prog, text):
    """True / False / None (cannot tell) : Ref(prog) ~ Ref(text) for every routine."""
    try:
        ref_p = refsem.ref_program(prog, impl.PERF)
        if text.startswith(decomp.MARKER):
            comp2 = impl.compile_es(text)
            m, entries = lts.machine(comp2.routine_ops, jump_index_last=True)
            other, oentries = m, entries
        else:
            ref_d = refsem.ref_program(reader.read_program(text), impl.PERF)
            other, oentries = ref_d.lts, ref_d.entries
        if len(ref_p.entries) != len(oentries):
            return False
        for a, b in zip(ref_p.entries, oentries):
            if lts.has_silent_cycle(ref_p.lts, a):
                return None
            ok, *_ = lts.product(ref_p.lts, a, other, b, label_eq=decomp.label_eq)
            if not ok:
                return False
        return True
    except Exception:
        return None


def finish(cid, viols, oc, has_jump=False):
    res = {"outcome": "violation" if viols else oc, "nt": cid if has_jump else None}
    if viols:
        res["viol"] = viols
    return res


# ------------------------------------------------------------------ documented JSON shapes for the decompile command
def doc_cases():
    def op(name, params=()):
        return {"opcode": name, "params": list(params)}
    end = op("End")
    params = {
        "int": 5, "fixed": {"type": "FIXED_POINT", "value": "1.5"}, "constant": {"type": "CONSTANT", "value": "LEVEL_X"},
        "string": {"type": "CONST_STRING", "value": "Hello World"},
        "lang": {"type": "LANG_STRING", "value": {"english": "Hello", "german": "Hallo"}},
        "posmark-int": {"type": "POSITION_MARK", "value": {"name": "Name of the mark", "x": 10, "y": 20}},
        "posmark-str": {"type": "POSITION_MARK", "value": {"name": "m", "x": "10", "y": "10.5"}},
    }
    params["posmark-mixed"] = {"type": "POSITION_MARK", "value": {"name": "mx", "x": "3.5", "y": "4"}}
    params["posmark-mixed2"] = {"type": "POSITION_MARK", "value": {"name": "my", "x": 7, "y": "8.5"}}
    for pname, p in params.items():
        yield ("doc", "param", pname), ({"routines": [{"type": "GENERIC", "ops": [op("some_op", [p]), op("two", [1, p]), end]}]}, ["some_op"])
    yield ("doc", "routine", "coroutine"), ({"routines": [{"type": "COROUTINE", "name": "CORO_A", "ops": [op("a"), end]},
                                                          {"type": "COROUTINE", "name": "CORO_B", "ops": [op("b"), end]}]}, ["coro CORO_A", "coro CORO_B"])
    yield ("doc", "routine", "one-coroutine"), ({"routines": [{"type": "COROUTINE", "name": "NAME", "ops": [op("a"), end]}]}, ["coro NAME"])
    for t, kw in (("ACTOR", "actor"), ("OBJECT", "object"), ("PERFORMER", "performer")):
        yield ("doc", "routine", t, "int"), ({"routines": [{"type": t, "target_id": 7, "ops": [op("a"), end]}]}, [f"for {kw} 7"])
        yield ("doc", "routine", t, "const"), ({"routines": [{"type": t, "target_id": "TARGET_C", "ops": [op("a"), end]}]}, [f"for {kw} TARGET_C"])
    yield ("doc", "routine", "generic+actor"), ({"routines": [{"type": "GENERIC", "ops": [op("a"), end]},
                                                              {"type": "ACTOR", "target_id": 1, "ops": [op("b"), end]}]}, ["def 0", "def 1 for actor 1"])
    # jump parameters are 1-based positions across all routines
    yield ("doc", "jumps", "positions"), ({"routines": [
        {"type": "GENERIC", "ops": [op("BranchDebug", [1, 3]), op("skipped"), op("target_a"), op("Jump", [6])]},
        {"type": "GENERIC", "ops": [op("unreached"), op("target_b"), end]}]}, ["target_a", "target_b"])
    # failures must not exit 0
    yield ("doc", "bad", "no-settings"), ("NOSETTINGS", None)
    yield ("doc", "bad", "no-ops"), ({"routines": [{"type": "GENERIC"}]}, None)
    yield ("doc", "bad", "bad-type"), ({"routines": [{"type": "MONSTER", "ops": []}]}, None)
    yield ("doc", "bad", "no-file"), ("NOFILE", None)
    yield ("doc", "bad", "not-json"), ("NOTJSON", None)


PARAM_VALUES = {
    "int": ("i", 5), "fixed": ("f", "1.5"), "constant": ("c", "LEVEL_X"), "string": ("s", "Hello World"),
    "lang": ("l", (("english", "Hello"), ("german", "Hallo"))), "posmark-int": ("p", "Name of the mark", 0, 0, 10, 20),
    "posmark-str": ("p", "m", 0, 2, 10, 10), "posmark-mixed": ("p", "mx", 2, 0, 3, 4), "posmark-mixed2": ("p", "my", 0, 2, 7, 8),
}


def run_doc_case(cid, case, real=False):
    doc, expect = case
    work = C05.workdir()
    path = os.path.join(work, "doc.json")
    if doc == "NOFILE":
        path = os.path.join(work, "does-not-exist.json")
    elif doc == "NOTJSON":
        with open(path, "w") as f:
            f.write("{ not json")
    elif doc == "NOSETTINGS":
        with open(path, "w") as f:
            json.dump({"routines": []}, f)
    else:
        with open(path, "w") as f:
            json.dump({**SETTINGS, **doc}, f)
    runner_fn = (lambda m, a: run_real(m, a, work)) if real else run_cli
    st, out, err = runner_fn("explorerscript.cli.decompile", [path])
    viols = []
    if expect is None:
        if st == 0:
            viols.append({"kind": "exit-0-on-failure", "detail": {"doc": repr(doc)[:300], "stdout": out[:200]}})
    else:
        if st != 0:
            viols.append({"kind": "documented-input-rejected", "detail": {"doc": doc, "status": st, "stderr": err[-400:],
                                                                        "real_subprocess": real}})
        else:
            for frag in expect:
                if frag not in out:
                    viols.append({"kind": "documented-input-misread", "detail": {"doc": doc, "missing": frag, "stdout": out[:600]}})
                    break
            if not viols:
                try:
                    comp = impl.compile_es(out)
                except Exception as e:
                    comp = None
                    viols.append({"kind": "decompiled-doc-does-not-compile", "detail": {"doc": doc, "stdout": out[:400], "error": str(e)[:200]}})
                if comp is not None and cid[1] == "param":
                    want = PARAM_VALUES[cid[2]]
                    got = [lts.canon_param(o.params[i]) for o in comp.routine_ops[0] for i in ([0] if o.op_code.name == "some_op" else [1])
                           if o.op_code.name in ("some_op", "two")]
                    if got != [want, want]:
                        viols.append({"kind": "documented-argument-misread", "detail": {"doc": doc, "got": got, "want": want, "stdout": out[:400]}})
    res = {"outcome": "violation" if viols else "ok", "nt": cid}
    if viols:
        res["viol"] = viols
    elif cid[1] in ("jumps", "routine"):
        res["sample"] = {"doc": doc if isinstance(doc, dict) else str(doc), "stdout": out[:300], "status": st}
    return res


def bad_compile_cases():
    yield ("cli", "bad", "syntax-error"), ("def 0 { a( }", True)
    yield ("cli", "bad", "undefined-label"), ("def 0 { jump @x; }", True)
    yield ("cli", "bad", "no-settings-file"), ("def 0 { a(); }", "nosettings")
    yield ("cli", "bad", "no-source-file"), (None, True)
    yield ("cli", "bad", "bad-settings"), ("def 0 { a(); }", "badsettings")


def run_bad_compile(cid, case, real=False):
    text, mode = case
    work = C05.workdir()
    src = os.path.join(work, "bad.exps")
    if text is None:
        src = os.path.join(work, "missing.exps")
    else:
        with open(src, "w") as f:
            f.write(text)
    settings = os.path.join(work, "settings.json")
    with open(settings, "w") as f:
        json.dump(SETTINGS if mode != "badsettings" else {"settings": {}}, f)
    if mode == "nosettings":
        settings = os.path.join(work, "no-such-settings.json")
    runner_fn = (lambda m, a: run_real(m, a, work)) if real else run_cli
    st, out, err = runner_fn("explorerscript.cli.compile", [src, "--settings", settings])
    res = {"outcome": "ok", "nt": cid}
    if st == 0:
        res = {"outcome": "violation", "nt": cid, "viol": {"kind": "exit-0-on-failure", "detail": {"case": repr(cid), "stdout": out[:200]}}}
    return res


def run_case(cid, case):
    real = cid[-1] == "REAL"
    base = cid[:-1] if real else cid
    if base[0] == "doc":
        return run_doc_case(cid, case, real)
    if base[0] == "cli":
        return run_bad_compile(cid, case, real)
    return run_program_case(cid, case, real)


def run(tier, seed):
    t0 = time.time()
    impl.warm()
    C05._BASE = tempfile.mkdtemp(prefix="vf_c15_")
    quick = tier == "quick"

    def make_cases():
        for cid, c in doc_cases():
            yield cid, c
            yield cid + ("REAL",), c
        for cid, c in bad_compile_cases():
            yield cid, c
            yield cid + ("REAL",), c
        k = 0
        for cid, p in C16.corner_programs():
            yield ("prog",) + tuple(cid), p
        for cid, p in gen_forms.form_programs():
            yield ("prog",) + tuple(cid), p
        for cid, p in G.programs(G.FULL, 2, 3, seed, G.SECOND_ROUTINES):
            k += 1
            yield ("prog",) + tuple(cid), p
            if k % 400 == 7:
                yield ("prog",) + tuple(cid) + ("REAL",), p
        for cid, p in G.programs(G.TINY if quick else G.FULL, 3, 3, seed, ("none",), min_n=3):
            k += 1
            yield ("prog",) + tuple(cid), p
            if k % 2500 == 7:
                yield ("prog",) + tuple(cid) + ("REAL",), p
    try:
        total = runner.explore(make_cases, run_case, timeout=120.0)
    finally:
        shutil.rmtree(C05._BASE, ignore_errors=True)
    return runner.finish(
        ID, LEVEL, tier, seed, total, t0,
        rule="compile command on every program of the lexer-corner set, G-forms and G-prog (FULL N<=2 x second routines, "
             + ("TINY" if quick else "FULL") + " N=3): exit status 0 iff the API compiles it, stdout is JSON of the documented "
             "structure, every jump parameter equals the 1-based position of its target op (target known from the API's "
             "offsets), the decompile command accepts the output and its text equals the API round trip (or, if not, behaves "
             "like the source wherever the API round trip does); decompile command on 24 documented JSON shapes (argument values compared after recompiling the decompiled text) (every routine "
             "type incl. coroutines, every argument type incl. integer position-mark coordinates, jump positions across "
             "routines) and 10 failing invocations (exit status != 0); in-process emulation via runpy with fresh module "
             "globals, a subset (every case of the JSON shapes, ~1 in 400 programs) also as real subprocesses; "
             "non-trivial = program with a jump-carrying op, or a JSON shape",
        assumptions=["runpy.run_module(..., run_name='__main__') with patched argv/stdout is the command; bound to the real "
                     "command by the subprocess subset",
                     "the decompiler's own defects are C02's: the CLI round trip is compared with the API round trip"],
        bounds={"tier": tier})
