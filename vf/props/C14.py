"""C14 — source maps survive storage and offset rewriting.

(I) all well-typed source maps over a small alphabet x all injective partial offset mappings 0..4 -> 0..5.
"""
from __future__ import annotations

import itertools
import json
import time

from .. import impl, runner

ID = "C14"
LEVEL = "exploration"

FILES = [None, "a/b.exps"]
CALL_SITES = [None, (None, 3, 4), ("f.exps", 5, 0)]
RETURNS = [None, 0, 1, 2, 3, 4]
PARAMS = [{}, {"$a": 1}, {"$a": "x", "$b": "'s'"}]
POSMARK_VARIANTS = [(), ("d",), ("m",), ("d", "m")]


def op_subsets():
    offs = [0, 1, 2, 3]
    for k in range(0, 4):
        for sub in itertools.combinations(offs, k):
            yield sub


def macro_variants(full):
    if full:
        for f, cs, r, p in itertools.product(range(2), range(3), range(6), range(3)):
            yield (f, cs, r, p)
    else:
        for r in range(6):
            yield (r % 2, r % 3, r, r % 3)
        yield (0, 1, 0, 1)
        yield (1, 2, 4, 2)
        yield (1, 0, None if False else 0, 0)


def build_map(ops, macros, pm):
    """ops: tuple of offsets; macros: tuple of (offset, (file, callsite, return, params)); pm: posmark variant."""
    from explorerscript.source_map import SourceMap, SourceMapping, MacroSourceMapping, SourceMapPositionMark
    mappings = {o: SourceMapping(10 + o, 2 * o) for o in ops}
    mm = {}
    for off, (f, cs, r, p) in macros:
        mm[off] = MacroSourceMapping(FILES[f], f"macro{off}", 20 + off, off, CALL_SITES[cs], RETURNS[r], dict(PARAMS[p]))
    marks = []
    mmarks = []
    if "d" in pm:
        marks.append(SourceMapPositionMark(1, 2, 1, 30, "mark'd", 0, 2, 5, 6))
    if "m" in pm:
        mmarks.append(("a/b.exps", "macroX", SourceMapPositionMark(4, 0, 5, 3, "mm", 2, 0, 7, 8)))
        mmarks.append((None, "macroY", SourceMapPositionMark(6, 1, 6, 9, "m2", 0, 0, 1, 1)))
    return SourceMap(mappings, marks, mm, mmarks)


def fields(sm):
    """Field-by-field view (tuples and lists identified)."""
    def norm(x):
        if isinstance(x, (list, tuple)):
            return [norm(y) for y in x]
        if isinstance(x, dict):
            return {str(k): norm(v) for k, v in x.items()}
        return x
    ops = {int(k): [v.line, v.column] for k, v in sm._mappings.items()}
    macros = {int(k): norm([v.relpath_included_file, v.macro_name, v.line, v.column, v.called_in, v.return_addr,
                            dict(v.parameter_mapping)]) for k, v in sm._mappings_macros.items()}
    marks = [norm(m.serialize()) for m in sm._position_marks]
    mmarks = [norm([a, b, m.serialize()]) for a, b, m in sm._position_marks_macro]
    return {"ops": ops, "macros": macros, "marks": marks, "macro_marks": mmarks}


def check_roundtrip(sm, desc):
    from explorerscript.source_map import SourceMap
    viols = []
    before = fields(sm)
    text = sm.serialize()
    try:
        back = SourceMap.deserialize(text)
    except Exception as e:
        return [{"kind": f"deserialize-exception:{type(e).__name__}", "detail": {"map": desc, "text": text, "error": str(e)[:200]}}]
    after = fields(back)
    if before != after:
        viols.append({"kind": "roundtrip-fields-differ", "detail": {"map": desc, "before": before, "after": after}})
    if not (back == sm) or (back != sm):
        viols.append({"kind": "roundtrip-not-equal", "detail": {"map": desc, "text": text}})
    text2 = back.serialize()
    if text2 != text:
        viols.append({"kind": "reserialize-differs", "detail": {"map": desc, "first": text, "second": text2}})
    if json.loads(sm.serialize(pretty=True)) != json.loads(text):
        viols.append({"kind": "pretty-differs", "detail": {"map": desc}})
    return viols


def reference_rewrite(f, mapping):
    """Ten-line reference for rewrite_offsets on the field view. return address: new offset of its op, or of the next
    surviving op; None marks 'unspecified' (no later op survives) and is not compared."""
    ops = {mapping[k]: v for k, v in f["ops"].items() if k in mapping}
    macros = {}
    for k, v in f["macros"].items():
        if k not in mapping:
            continue
        v = list(v)
        r = v[5]
        if r is not None and mapping:
            a = r
            top = max(mapping)
            while a not in mapping and a <= top:
                a += 1
            v[5] = mapping[a] if a in mapping else ("unspecified",)
        elif r is not None:
            v[5] = ("unspecified",)
        macros[mapping[k]] = v
    return {"ops": ops, "macros": macros, "marks": f["marks"], "macro_marks": f["macro_marks"]}


def check_rewrite(ops, macros, pm, mapping, desc):
    sm = build_map(ops, macros, pm)
    before = fields(sm)
    expect = reference_rewrite(before, mapping)
    try:
        sm.rewrite_offsets(dict(mapping))
    except Exception as e:
        return [{"kind": f"rewrite-exception:{type(e).__name__}", "detail": {"map": desc, "mapping": mapping, "error": str(e)[:200]}}]
    got = fields(sm)
    for k, v in expect["macros"].items():
        if v[5] == ("unspecified",) and k in got["macros"]:
            got["macros"][k][5] = ("unspecified",)
    if got != expect:
        return [{"kind": "rewrite-differs", "detail": {"map": desc, "mapping": {str(k): v for k, v in mapping.items()},
                                                       "before": before, "expected": expect, "got": got}}]
    return []


NSRC = 5


def mappings_all():
    src = list(range(NSRC))
    dst = list(range(NSRC + 1))
    for k in range(0, NSRC + 1):
        for dom in itertools.combinations(src, k):
            for img in itertools.permutations(dst, k):
                yield dict(zip(dom, img))


def map_specs(tier, for_rewrite):
    full = tier != "quick"
    mvars = list(macro_variants(full and not for_rewrite))
    small = list(macro_variants(False))
    for ops in op_subsets():
        free = [o for o in range(5) if o not in ops]
        yield ops, (), ()
        for off in free:
            for mv in (small if for_rewrite else mvars):
                for pm in ([()] if for_rewrite else POSMARK_VARIANTS):
                    yield ops, ((off, mv),), pm
        for o1, o2 in itertools.combinations(free, 2):
            for mv1, mv2 in itertools.product(small[:4] if for_rewrite else small, repeat=2):
                yield ops, ((o1, mv1), (o2, mv2)), (("d", "m") if not for_rewrite else ())


def real_maps():
    """Maps produced by the compiler (with macros, position marks) and both decompilers."""
    srcs = [
        "macro m($p) { a($p); if (debug) { return; } ~n(Position<'x', 1, 2.5>); b(); }\n"
        "macro n($q) { c($q); }\n"
        "def 0 { ~m(1); x(Position<'y', 3.5, 4>); ~n(2); ~m('s'); end; }\n",
        "def 0 { a(); if (debug) { b(); } else { c(); } switch ($V) { case 1: d(); break; default: e(); } hold; }\n",
    ]
    out = []
    for s in srcs:
        comp = impl.compile_es(s)
        out.append(("compile", comp.source_map))
        text, sm = impl.decompile_es(comp.routine_ops, comp.routine_infos, comp.named_coroutines)
        out.append(("decompile_es", sm))
        comp = impl.compile_es(s)
        text, sm = impl.decompile_ssbs(comp.routine_ops, comp.routine_infos, comp.named_coroutines)
        out.append(("decompile_ssbs", sm))
    return out


def run_case(cid, case):
    kind = cid[0]
    if kind == "rt":
        ops, macros, pm = case
        sm = build_map(ops, macros, pm)
        viols = check_roundtrip(sm, repr(case))
        res = {"outcome": "violation" if viols else "ok", "nt": cid if (ops or macros) else None}
        if viols:
            res["viol"] = viols
        elif hash(repr(cid)) % 3000 == 0:
            res["sample"] = {"roundtrip": json.loads(sm.serialize())}
        return res
    if kind == "real":
        name, idx = case
        sm = real_maps()[idx][1]
        viols = check_roundtrip(sm, name)
        res = {"outcome": "violation" if viols else "ok", "nt": cid}
        if viols:
            res["viol"] = viols
        else:
            res["sample"] = {"real_map": name, "text": sm.serialize()[:300]}
        return res
    # rewrite: one map spec x all mappings
    ops, macros, pm = case
    viols = []
    n = 0
    for mapping in mappings_all():
        n += 1
        v = check_rewrite(ops, macros, pm, mapping, repr(case))
        if v:
            viols += v
            if len(viols) >= 3:
                break
    res = {"outcome": "violation" if viols else "ok", "nt": cid if (ops or macros) else None,
           "extra": {"rewrite_calls": n}}
    if viols:
        res["viol"] = viols[:3]
    elif hash(repr(cid)) % 200 == 0:
        res["sample"] = {"rewrite_map": repr(case), "mappings_tried": n}
    return res


def run(tier, seed):
    global NSRC
    t0 = time.time()
    impl.warm()
    NSRC = 5 if tier == "quick" else 6
    nreal = len(real_maps())

    def make_cases():
        for i in range(nreal):
            yield ("real", i), (real_maps()[i][0], i)
        for spec in map_specs(tier, False):
            yield ("rt",) + spec, spec
        for spec in map_specs(tier, True):
            yield ("rw",) + spec, spec
    total = runner.explore(make_cases, run_case, timeout=60.0)
    return runner.finish(
        ID, LEVEL, tier, seed, total, t0,
        rule="round trip: all source maps with <=3 op entries over offsets 0..3, <=2 macro entries on the free offsets (file x "
             "call site x return address None/0..4 x parameter mapping; " + ("all 108 variants" if tier != "quick" else "9 variants") +
             " for one entry), 0-1 position marks of each kind, plus maps produced by the compiler and both decompilers: fields "
             "compared one by one, ==, idempotent re-serialisation; rewriting: every map spec of a reduced family x ALL 4051 "
             "injective partial mappings 0..4 -> 0..5 (dropping, non-monotone) against a ten-line reference; an evaluation is one "
             "map (round trip) or one map x all mappings (rewrite, counted in counters.rewrite_calls); non-trivial = non-empty map",
        assumptions=["tuples and lists are identified after the JSON round trip",
                     "when no later op survives, the rewritten return address is unspecified and not compared"],
        bounds={"offsets": f"0..{NSRC - 1} -> 0..{NSRC}", "mappings": 4051 if tier == "quick" else 37633})
