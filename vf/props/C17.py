"""C17 — the highlighting lexer is total and loses no text.

(I) all strings up to a length bound over a 14-character alphabet, plus every accepted program text of the
other generators: get_tokens terminates, concatenation == input (+ the one newline Pygments appends), and
for accepted programs no Error token.
"""
from __future__ import annotations

import itertools
import time

from .. import esast as A
from .. import gen_forms, gen_layout as GL, gen_prog as G
from .. import impl, runner
from . import C16

ID = "C17"
LEVEL = "exploration"
ALPHABET = ['"', "'", "/", "*", "\n", "a", "0", ".", "5", "$", "@", "§", "\\", " "]
EXTRA = ["\t", "\r", "é", "{", "-", "x", "b", "_", "\u2028", "\U0001F600", "(", ")"]
# accepted programs with backslashes in strings (the grammar allows a backslash followed by any character),
# blanks before '(', empty strings, an unterminated comment / a comment without newline at the end
ACCEPTED_TEXTS = [
    "def 0 { a('a\\qb', \"x\\[y\", '''C:\\dir''', 'tab\\there'); end; }",
    "def 0 { a ( 1 , 'x' ) ; foo\t(2); bar\n (3); if ( debug ) { ~m (1); } }\nmacro m ($p) { x ($p); }",
    "def 0 { a(''); b(\"\"); c(''''''); d('\\''); e(\"\\\"\"); end; }",
    "def 0 { a(1.5, .5, -0.5, 0x1F, 0b101, 0o17, $v1, CONST_1); } /* trailing",
    "coro X { a(Position<'p', 1, 2.5>); } // no newline at the end",
    # a backslash directly in front of a line end, inside multi-line and single-line literals and as line joining outside
    "def 0 { a(\'\'\'line one \\\nline two\'\'\', \"\"\"x\\\n\"\"\"); b('y\\\nz', \"q\\\n\"); c(1, \\\n 2); end; }",
]
PREFIX_LEN = 2


def lexer():
    from explorerscript.pygments.expslexer import ExplorerScriptLexer
    return ExplorerScriptLexer(stripnl=False)


def check_text(lx, text, accepted=False):
    from pygments.token import Error
    toks = list(lx.get_tokens(text))
    joined = "".join(t for _, t in toks)
    # Pygments' own preprocessing (Lexer._preprocess_lexer_input), not the lexer's doing: CR LF / CR become LF,
    # a BOM is dropped, one newline is appended if missing.
    want = text.replace("\r\n", "\n").replace("\r", "\n")
    if want.startswith("\ufeff"):
        want = want[1:]
    if not want.endswith("\n"):
        want += "\n"
    if joined != want:
        return {"kind": "text-lost", "detail": {"input": text, "joined": joined}}
    if accepted and any(tt is Error or str(tt).startswith("Token.Error") for tt, _ in toks):
        return {"kind": "error-token-in-accepted-program", "detail": {"input": text,
                                                                    "tokens": [(str(tt), t) for tt, t in toks if "Error" in str(tt)][:5]}}
    return None


def run_case(cid, case):
    lx = lexer()
    if cid[0] == "strings":
        prefix, n, alphabet = case
        count = 0
        viols = []
        for rest in itertools.product(alphabet, repeat=n - len(prefix)) if n >= len(prefix) else [()]:
            text = "".join(prefix) + "".join(rest)
            count += 1
            v = check_text(lx, text)
            if v:
                viols.append(v)
                if len(viols) > 3:
                    break
        res = {"outcome": "violation" if viols else "ok", "evals": count, "nt_count": count if n >= 2 else 0}
        if viols:
            res["viol"] = viols
        elif hash(repr(cid)) % 60 == 0:
            res["sample"] = {"prefix": "".join(prefix), "length": n, "strings": count}
        return res
    # program texts
    if cid[0] == "text":
        try:
            impl.compile_es(case)
        except Exception as e:
            return {"outcome": "harness-error", "harness_error": f"text meant to be accepted is rejected: {e}\n{case}"}
        v = check_text(lx, case, accepted=True)
        res = {"outcome": "violation" if v else "ok", "nt": cid}
        if v:
            res["viol"] = v
        return res
    prog = case
    text = A.render(prog)
    try:
        impl.compile_es(text)
    except Exception:
        return {"outcome": "not-accepted"}
    viols = []
    count = 0
    texts = [text, A.render(prog, A.Style(multiline=False)), A.render(prog, A.Style(quote='"', trailing_comma=True, label_sigil="§"))]
    toks = GL.tokenize(text)
    texts += [GL.join(toks, [" "] * len(toks)), GL.join(toks, ["\t"] * len(toks)), GL.join(toks, ["/*c*/"] * len(toks)), GL.join(toks, ["//c\n"] * len(toks)), GL.join(toks, ["\r\n"] * len(toks)),
              GL.join(toks, [" \\\n "] * len(toks)), C16.respell_triple(text, "'"), C16.respell_triple(text, '"'), text + "/* open"]
    for t in texts:
        count += 1
        v = check_text(lx, t, accepted=True)
        if v:
            viols.append(v)
    res = {"outcome": "violation" if viols else "ok", "evals": count, "nt": cid}
    if viols:
        res["viol"] = viols[:3]
    return res


def run(tier, seed):
    t0 = time.time()
    impl.warm()
    global PREFIX_LEN
    L = 5 if tier == "quick" else 7
    PREFIX_LEN = 2 if tier == "quick" else 3   # batches of 14^3 (quick) / 14^4 strings (thorough): a few seconds each

    def make_cases():
        for n in range(0, L + 1):
            if n < PREFIX_LEN:
                for combo in itertools.product(ALPHABET, repeat=n):
                    yield ("strings", n, combo), (combo, n, ALPHABET)
            else:
                for prefix in itertools.product(ALPHABET, repeat=PREFIX_LEN):
                    yield ("strings", n, prefix), (prefix, n, ALPHABET)
        # wider alphabet (unicode, CR, tab, braces) at a shorter bound
        wide = ALPHABET + EXTRA
        for n in range(1, 4 if tier == "quick" else 5):
            for prefix in itertools.product(wide, repeat=1):
                yield ("strings", "wide", n, prefix), (prefix, n, wide)
        for i, t in enumerate(ACCEPTED_TEXTS):
            yield ("text", i), t
        for cid, p in itertools.chain(C16.corner_programs(), gen_forms.form_programs(),
                                      G.programs(G.FULL, 2, 3, seed, ("none", "coro", "for_actor"))):
            yield ("prog",) + tuple(cid), p
    total = runner.explore(make_cases, run_case, timeout=30.0, max_hangs=6)
    return runner.finish(
        ID, LEVEL, tier, seed, total, t0,
        rule=f"all strings of length <= {L} over the 14 characters {ALPHABET!r} and of length <= {3 if tier == 'quick' else 4} over "
             f"26 characters (adding tab, CR, non-ASCII, braces, line separator, astral plane) through "
             "ExplorerScriptLexer(stripnl=False).get_tokens: concatenation of token texts == input + the one appended newline; "
             "plus 10 spellings (layouts, comments everywhere, CRLF, line joining, quote styles, unterminated comment) of every "
             "accepted program of G-forms, the lexer-corner programs and G-prog(FULL, N<=2): lossless and no Error token; "
             "evaluations counts strings; non-trivial = string of length >= 2 or a program text",
        assumptions=["stripnl=False; Pygments' own preprocessing (CR LF / CR -> LF, BOM dropped, one newline appended) is applied "
                     "to the expected text as well, it is not the lexer's doing",
                     "termination: 30 s watchdog per batch of <= 38416 strings (typical: under 3 s); exploration stops after 6 hangs"],
        bounds={"max_length": L})
