"""C03 — compiled output is a closed, uniquely addressed op list.

Checked on every successful compilation of G-prog, G-forms, G-macro (ExplorerScript compiler) and of the
SsbScript texts of G-ssb (SsbScript compiler).
"""
from __future__ import annotations

import os
import shutil
import tempfile
import time

from .. import esast as A
from .. import gen_forms, gen_macro as GM, gen_prog as G, gen_ssb as GS
from .. import impl, lts, runner
from . import C05

ID = "C03"
LEVEL = "exploration"


CANONICAL_ARITY = {"Jump", "Call", "Branch", "BranchBit", "BranchDebug", "BranchEdit", "BranchPerformance", "BranchScenarioNow",
                   "BranchScenarioNowAfter", "BranchScenarioNowBefore", "BranchScenarioAfter", "BranchScenarioBefore",
                   "BranchValue", "BranchVariable", "BranchVariation", "Case", "CaseMenu", "CaseMenu2", "CaseScenario",
                   "CaseValue", "CaseVariable"}


def closure_violations(comp, source):
    """The invariant itself. Returns a list of violation dicts."""
    from explorerscript.ssb_converting.ssb_special_ops import SsbLabel, SsbLabelJump, SsbForeignLabel
    viols = []
    ops_all = [op for r in comp.routine_ops for op in r]
    offsets = {}
    for op in ops_all:
        offsets[op.offset] = offsets.get(op.offset, 0) + 1
    dup = sorted(o for o, c in offsets.items() if c > 1)
    if dup:
        viols.append({"kind": "duplicate-offset", "detail": {"offsets": dup, "source": source}})
    for op in ops_all:
        name = op.op_code.name
        if isinstance(op, (SsbLabel, SsbLabelJump, SsbForeignLabel)) or name.startswith("ES_"):
            viols.append({"kind": "pseudo-op-remains", "detail": {"op": name, "source": source}})
            continue
        if not isinstance(op.offset, int) or op.offset < 0:
            viols.append({"kind": "bad-offset", "detail": {"op": name, "offset": repr(op.offset), "source": source}})
        if name in lts.JUMP_INDEX:
            params = list(op.params)
            if not params or not isinstance(params[-1], int) or isinstance(params[-1], bool):
                viols.append({"kind": "jump-without-target", "detail": {"op": name, "params": repr(params), "source": source}})
            elif params[-1] not in offsets:
                viols.append({"kind": "dangling-target", "detail": {"op": f"{name}@{op.offset}", "target": params[-1],
                                                                    "source": source}})
            elif len(params) - 1 != lts.JUMP_INDEX[name] and name in CANONICAL_ARITY:
                # the binary format (and the decompiler) reads the target at a fixed index: for the opcodes the language's
                # own syntax emits, the last parameter must be at that index
                viols.append({"kind": "target-not-at-table-index", "detail": {"op": f"{name}@{op.offset}", "params": repr(params),
                                                                            "table_index": lts.JUMP_INDEX[name], "source": source}})
    n = len(comp.routine_ops)
    if not (len(comp.routine_infos) == n and len(comp.named_coroutines) == n):
        viols.append({"kind": "table-length", "detail": {"ops": n, "infos": len(comp.routine_infos),
                                                         "coroutines": len(comp.named_coroutines), "source": source}})
    return viols


def features(comp, text):
    f = {}
    ops_all = [op for r in comp.routine_ops for op in r]
    offs = sorted(op.offset for op in ops_all)
    if offs and offs != list(range(offs[0], offs[0] + len(offs))):
        f["offset_gaps"] = 1
    if any(op.op_code.name in lts.JUMP_INDEX for op in ops_all):
        f["has_jump_ops"] = 1
    if len(comp.routine_ops) > 1:
        f["multi_routine"] = 1
    if any(len(r) == 0 for r in comp.routine_ops):
        f["alias_routine"] = 1
    return f


def run_case(cid, case):
    tag = cid[0]
    if tag == "ssb":
        ops, infos, coros = GS.materialize(case, _SEED, info_variant=cid[1])
        try:
            text, _ = impl.decompile_ssbs(ops, infos, coros)
            comp = impl.compile_ssbs(text)
        except Exception as e:
            return {"outcome": f"not-compiled:{type(e).__name__}"}
        source = text
    elif tag == "macro":
        files, macros, main = GM.build_files(case, _SEED)
        root = os.path.join(C05.workdir(), "proj")
        shutil.rmtree(root, ignore_errors=True)
        texts = C05.write_files(root, files)
        try:
            comp = impl.compile_es(texts["main.exps"], os.path.join(root, "main.exps"))
        except Exception as e:
            return {"outcome": f"not-compiled:{type(e).__name__}"}
        source = texts
    else:
        source = A.render(case)
        try:
            comp = impl.compile_es(source)
        except Exception as e:
            return {"outcome": f"not-compiled:{type(e).__name__}"}
    viols = closure_violations(comp, source)
    f = features(comp, source)
    res = {"outcome": "violation" if viols else "ok", "extra": f,
           "nt": cid if ("has_jump_ops" in f and ("offset_gaps" in f or "multi_routine" in f)) else None}
    if viols:
        res["viol"] = viols
    elif hash(repr(cid)) % 3000 == 0:
        res["sample"] = {"source": source if isinstance(source, str) else source.get("main.exps"),
                         "offsets": [[op.offset for op in r] for r in comp.routine_ops]}
    return res


_SEED = 0


def run(tier, seed):
    global _SEED
    t0 = time.time()
    _SEED = seed
    impl.warm()
    C05._BASE = tempfile.mkdtemp(prefix="vf_c03_")
    quick = tier == "quick"

    def make_cases():
        yield from gen_forms.form_programs()
        yield from G.cross_programs(seed, compatible_cases=False)
        yield from G.switch_programs(seed, compatible_cases=False)
        yield from G.programs(G.FULL, 2, 3, seed, G.SECOND_ROUTINES)
        yield from G.programs(G.FULL, 3, 3, seed, ("none",) if quick else ("none", "target_label", "jump_back"), min_n=3)
        if not quick:
            yield from G.programs(G.TINY, 4, 3, seed, ("none",), min_n=4)
        yield from GM.cases(3 if quick else 4, seed)
        for iv, shape in enumerate(GS.shapes(GS.ALL_KINDS, 3 if quick else 4, 2, wellformed=False)):
            yield ("ssb", iv % 5 if iv % 7 else 99, shape), shape
    try:
        total = runner.explore(make_cases, run_case, timeout=30.0)
    finally:
        shutil.rmtree(C05._BASE, ignore_errors=True)
    return runner.finish(
        ID, LEVEL, tier, seed, total, t0,
        rule="every successful compilation of G-forms, G-prog (FULL alphabet, N<=3" + ("" if quick else "; TINY N=4") +
             ", second-routine variants), G-macro (m<=" + ("3" if quick else "4") + ") by the ExplorerScript compiler and of the "
             "SsbScript text of every G-ssb shape (<=" + ("3" if quick else "4") + " ops, <=2 routines, all kinds) by the SsbScript "
             "compiler is checked for: unique offsets, jump-carrying ops end in an int target that is an offset of the "
             "result, no pseudo op left, equal table lengths; non-trivial = result has a jump-carrying op and either offset "
             "gaps (dropped ops) or several routines",
        assumptions=["jump-carrying kinds are exactly OPS_WITH_JUMP_TO_MEM_OFFSET of the binary format (Jump, Call, Branch*, Case*)"],
        bounds={"tier": tier})
