"""C11 — results depend only on the input, not on what was processed before.

(H) breadth-first exploration of all histories of API calls up to a depth bound over an alphabet of inputs chosen to
collide on the process-wide state; every history runs in a fresh fork of the pristine template process; in every
state reached, every call's result must equal the result of the same call in the pristine process and in a truly
fresh interpreter.
"""
from __future__ import annotations

import gc
import hashlib
import itertools
import json
import os
import pickle
import subprocess
import sys
import time

from .. import decomp, impl, lts, runner

ID = "C11"
LEVEL = "model_checking"

COMPILE_TEXTS = {
    "c_simple": "def 0 { a(1, 'x'); if (debug) { b(); } else { c(); } end; }",
    "c_macro": "macro m($p) { x($p); if ($p == 1) { return; } y(Position<'pm', 1, 2.5>); }\ndef 0 { ~m(1); ~m('s'); hold; }",
    "c_switch": "def 0 { switch ($V) { case 1: a(); break; case 2: case 3: b(); default: c(); } while ($A < 3) { d(); continue; } }",
    "c_strings": "def 0 { say('two\\nlines', {english='a\\nb', german='c'}); @l; jump @l; }\ncoro X { alias previous; }" if False else
                 "def 0 { say('two\\nlines', {english='a\\nb', german='c'}); @l; call @l; return; }",
    "c_fail_syntax": "def 0 { a(; }",
    "c_fail_late": "def 0 { a(); if (debug) { jump @nowhere; } b(); }",
    "c_fail_macro": "macro m($p) { x($p); } def 0 { a(); ~m(); b(); }",
}
DECOMPILE_SRC = {
    # decompiler inputs are compiler outputs (built in the pristine template) and raw sets
    "d_ifs": "def 0 { a(); if (debug) { b(); } elseif ($A == 1) { c(); } else { d(); } e(); end; }",
    "d_ifs2": "def 0 { x(); if (edit) { y(); } elseif ($B == 2) { z(); } else { w(); } v(); end; }",
    "d_switch": "def 0 { switch ($V) { case 1: a(); break; case 2: b(); break; default: c(); break; } d(); end; }",
    "d_loop": "def 0 { forever { a(); if (debug) { break_loop; } b(); } c(); end; }",
    # multi-line strings in places where the writers print parameters themselves (switch over an operation, menu2 case,
    # operation behind an inline context)
    "d_header_strings": "def 0 { switch (ProcessSpecial('first line\\nsecond line', 1, 2)) { case 1: Op(1); break; } "
                        "switch (message_SwitchMenu2(0, 1)) { case menu2(5): x(); break; case menu('two\\nlines'): y(); break; } "
                        "say<actor 2>('inline\\nctx', {english='a\\nb'}); end; }",
    # five break points (sets of igraph edges with more than 8 slots) and cases that are reached twice (edge numbers in label names)
    "d_many_breaks": "def 0 { while ($A == 1) { " + "".join(
        f"switch ($S{i}) {{ case 1: break_loop; case 2: Op{i}(2); break; " + ("case 3: break_loop; " if i == 0 else "") + "} "
        for i in range(4)) + "} After(1); end; }",
    "d_strings": "def 0 { if (debug) { say('two\\nlines', {english='a\\nb'}); } say2(\"x\\ny\"); hold; }",
    "d_two_routines": "def 0 { a(); if ($A > 1) { b(); } end; } def 1 for actor 2 { switch (random(3)) { case 0: c(); break; } hold; }",
}
SSBS_TEXT = "def 0 { a(1, 'x'); @l; Branch($V, 1, @l); two('a\\nb', {english='e'}); End(); }"
SSBS_BAD = "def 0 { a(1; }"
# a small project on disk: nested imports (main -> lib/b -> lib/c) and two imported files that define the same macro
IMPORT_ROOT = "/tmp/vf_c11_proj"
IMPORT_FILES = {
    "main.exps": 'import "./lib/b.exps";\nimport "./other.exps";\nimport "./third.exps";\n'
                 "def 0 { ~mb(1); ~shared(); ~mc('direct'); end; }\n",
    "lib/b.exps": 'import "./c.exps";\nmacro mb($p) { ~mc($p); x($p, Position<\'in_b\', 1, 2>); }\nmacro shared() { from_b(); }\n',
    "lib/c.exps": "macro mc($q) { y($q); if ($q == 1) { return; } z(); }\n",
    "other.exps": "macro shared() { from_other(); }\n",
    "third.exps": "macro shared() { from_third(); }\nmacro unused() { u(); }\n",
}
RAW_FALLBACK = "raw_fallback"   # a set the structuring passes reject -> SsbScript fallback (raises inside convert)
CLI_DOC = "cli_doc"

OPS = (list(COMPILE_TEXTS) + ["c_import", "c_reuse:c_simple", "c_reuse:c_switch", "c_reuse:c_fail_late", "c_reuse:c_import"] +
       list(DECOMPILE_SRC) + [RAW_FALLBACK, CLI_DOC, "ssbs_compile", "ssbs_compile_bad", "ssbs_decompile", "ssbs_decompile:d_header_strings"])


def digest(obj):
    return hashlib.sha1(pickle.dumps(obj)).hexdigest()[:16]


def describe_comp(comp):
    return (decomp.describe(comp.routine_ops), impl.routine_table(comp.routine_infos, comp.named_coroutines),
            comp.source_map.serialize())


class World:
    """Everything a history touches inside one forked process."""

    def __init__(self):
        self.inputs = {}
        self.reused = None

    def decompile_input(self, name):
        if name not in self.inputs:
            if name == RAW_FALLBACK:
                from explorerscript.ssb_converting.ssb_data_types import SsbOperation, SsbOpCode, SsbRoutineInfo, SsbRoutineType
                ops = [SsbOperation(2, SsbOpCode(-1, "op0"), []), SsbOperation(3, SsbOpCode(-1, "Case"), [0, 3]),
                       SsbOperation(6, SsbOpCode(-1, "Jump"), [3])]
                self.inputs[name] = ([ops], [SsbRoutineInfo(SsbRoutineType.GENERIC, 0)], [None])
            else:
                comp = PRISTINE_COMPILED[name]
                self.inputs[name] = pickle.loads(comp)   # a private copy per history, reused by repeated calls
        return self.inputs[name]

    def run(self, op):
        """-> json-able result of one call."""
        try:
            if op in COMPILE_TEXTS:
                return ["ok", describe_comp(impl.compile_es(COMPILE_TEXTS[op]))]
            if op == "c_import":
                return ["ok", describe_comp(impl.compile_es(IMPORT_FILES["main.exps"], os.path.join(IMPORT_ROOT, "main.exps")))]
            if op.startswith("c_reuse:"):
                from explorerscript.ssb_converting.ssb_compiler import ExplorerScriptSsbCompiler
                if self.reused is None:
                    self.reused = ExplorerScriptSsbCompiler(impl.PERF, [])
                c = self.reused
                what = op.split(":", 1)[1]
                if what == "c_import":
                    c.compile(IMPORT_FILES["main.exps"], os.path.join(IMPORT_ROOT, "main.exps"))
                else:
                    c.compile(COMPILE_TEXTS[what], "/nonexistent-dir/main.exps")
                return ["ok", describe_comp(impl.Compiled(c))]
            if op == "ssbs_compile":
                return ["ok", describe_comp(impl.compile_ssbs(SSBS_TEXT))]
            if op == "ssbs_compile_bad":
                return ["ok", describe_comp(impl.compile_ssbs(SSBS_BAD))]
            if op.startswith("ssbs_decompile"):
                rops, infos, coros = self.decompile_input(op.split(":", 1)[1] if ":" in op else "d_strings")
                before = decomp.snapshot(rops, infos, coros)
                text, sm = impl.decompile_ssbs(rops, infos, coros)
                after = decomp.snapshot(rops, infos, coros)
                return ["ok", [text, sm.serialize(), "input-unchanged" if before == after else "INPUT-CHANGED"]]
            if op == CLI_DOC:
                from explorerscript.cli import decompile as cli
                doc = [{"type": "GENERIC", "ops": [{"opcode": "BranchDebug", "params": [1, 3]}, {"opcode": "a", "params": []},
                                                   {"opcode": "End", "params": []}]}]
                infos, coros, rops = cli.read_routines(doc)
                from explorerscript.ssb_converting.ssb_decompiler import ExplorerScriptSsbDecompiler
                text, sm = ExplorerScriptSsbDecompiler(infos, rops, coros, impl.PERF, impl.dungeon_mode_constants()).convert()
                return ["ok", [text, sm.serialize(), [[op_.offset for op_ in r] for r in rops]]]
            rops, infos, coros = self.decompile_input(op)
            before = decomp.snapshot(rops, infos, coros)
            text, sm = impl.decompile_es(rops, infos, coros)
            after = decomp.snapshot(rops, infos, coros)
            return ["ok", [text, sm.serialize(), "input-unchanged" if before == after else ["INPUT-CHANGED", repr(before)[:300], repr(after)[:300]]]]
        except Exception as e:
            return ["raised", type(e).__name__, str(e)[:200]]


PRISTINE_COMPILED = {}


def canonical_state():
    """Property-relevant process-wide state, without addresses."""
    from explorerscript.ssb_converting.decompiler.graph_building import graph_utils
    from explorerscript.ssb_converting.ssb_decompiler import ExplorerScriptSsbDecompiler
    memo = sorted((len(v), tuple(sorted(v))) for v in graph_utils.find_first_common_next_vertex_in_edges_cache.values())
    cli_counter = None
    m = sys.modules.get("explorerscript.cli.decompile")
    if m is not None:
        cli_counter = m.counter.count
    return (tuple(memo), tuple(ExplorerScriptSsbDecompiler.labels_already_printed), len(ExplorerScriptSsbDecompiler.forever_start_handler_stack),
            cli_counter)


def prepare():
    """In the template process: compile the decompiler inputs once (pickled, so every history gets private copies)."""
    for rel, text in IMPORT_FILES.items():
        path = os.path.join(IMPORT_ROOT, rel)
        os.makedirs(os.path.dirname(path), exist_ok=True)
        try:
            same = open(path).read() == text
        except OSError:
            same = False
        if not same:
            tmp = f"{path}.{os.getpid()}.tmp"
            with open(tmp, "w") as f:
                f.write(text)
            os.replace(tmp, path)
    for name, src in DECOMPILE_SRC.items():
        comp = impl.compile_es(src)
        PRISTINE_COMPILED[name] = pickle.dumps((comp.routine_ops, comp.routine_infos, comp.named_coroutines))


def run_history(cid, hist):
    """Executed in a fresh fork per history (see run_case): returns per-step results and states."""
    ops, env = hist
    do_gc, phase = env
    w = World()
    held = []
    if phase:
        import igraph
        held = [igraph.Graph(directed=True) for _ in range(phase)]
    results = []
    states = []
    for op in ops:
        results.append(w.run(op))
        if do_gc:
            gc.collect()
        states.append(digest(canonical_state()))
    return results, states


def in_fork(fn, *args):
    r, wfd = os.pipe()
    pid = os.fork()
    if pid == 0:
        os.close(r)
        try:
            out = fn(*args)
            data = pickle.dumps(("ok", out))
        except BaseException as e:
            data = pickle.dumps(("err", f"{type(e).__name__}: {e}"))
        with os.fdopen(wfd, "wb") as f:
            f.write(data)
        os._exit(0)
    os.close(wfd)
    with os.fdopen(r, "rb") as f:
        data = f.read()
    os.waitpid(pid, 0)
    return pickle.loads(data)


_EXPECT = {}


def expected():
    if not _EXPECT:
        for op in OPS:
            st, out = in_fork(run_history, ("pristine", op), ((op,), (0, 0)))
            assert st == "ok", out
            _EXPECT[op] = out[0][0]
    return _EXPECT


def run_case(cid, hist):
    exp = expected()
    st, out = in_fork(run_history, cid, hist)
    if st != "ok":
        return {"outcome": "harness-error", "harness_error": out}
    results, states = out
    ops, env = hist
    viols = []
    for i, (op, res) in enumerate(zip(ops, results)):
        if res != exp[op]:
            viols.append({"kind": "history-dependent-result", "detail": {
                "history": list(ops[:i + 1]), "env": {"gc_between_calls": env[0], "graphs_held": env[1]}, "step": i, "call": op,
                "got": json.dumps(res)[:1200], "pristine": json.dumps(exp[op])[:1200]}})
            break
    res = {"outcome": "violation" if viols else "ok", "states": len(set(states)), "transitions": len(ops),
           "nt": cid if len(ops) > 1 else None, "extra": {"state_" + s: 1 for s in set(states)}}
    if viols:
        res["viol"] = viols
    elif hash(repr(cid)) % 700 == 0:
        res["sample"] = {"history": list(ops), "env": list(env), "state_hashes": states}
    return res


FRESH_HASH_SEEDS = ("0", "1", "2", "3", "4", "5", "6", "4242")


def fresh_interpreter_results():
    """The alphabet in truly fresh interpreters (eight hash seeds: iteration orders of sets of strings differ between them)."""
    code = ("import sys, json; sys.path.insert(0, %r); sys.path.insert(0, %r); from vf.props import C11; from vf import impl, runner; "
            "import logging; logging.disable(logging.CRITICAL); C11.prepare(); w = C11.World(); "
            "print(json.dumps({op: C11.World().run(op) for op in C11.OPS}))" % (runner.VERIF, impl.REPO))
    out = {}
    procs = {hs: subprocess.Popen([sys.executable, "-c", code], stdout=subprocess.PIPE, stderr=subprocess.PIPE, text=True,
                                  env=dict(os.environ, PYTHONHASHSEED=hs, VERIF_REPO=impl.REPO)) for hs in FRESH_HASH_SEEDS}
    for hs, p in procs.items():
        so, se = p.communicate()
        if p.returncode != 0:
            raise RuntimeError(se[-800:])
        out[hs] = json.loads(so.strip().splitlines()[-1])
    return out


def run(tier, seed):
    t0 = time.time()
    import logging
    import warnings
    logging.disable(logging.CRITICAL)
    warnings.simplefilter("ignore")
    impl.warm()
    prepare()
    depth = 2 if tier == "quick" else 3
    exp = expected()
    fresh_viols = []
    fresh = fresh_interpreter_results()
    for hs, res in fresh.items():
        for op in OPS:
            if json.loads(json.dumps(exp[op])) != res[op]:
                fresh_viols.append({"kind": "differs-from-fresh-interpreter", "case_hash": runner.case_hash(("fresh", hs, op)),
                                    "case_id": repr(("fresh", hs, op)),
                                    "detail": {"call": op, "PYTHONHASHSEED": hs, "fork": json.dumps(exp[op])[:800], "fresh": json.dumps(res[op])[:800]}})
    envs = [(0, 0), (1, 0), (0, 3), (1, 3)]

    def make_cases():
        for d in range(1, depth + 1):
            for ops in itertools.product(OPS, repeat=d):
                for env in (envs if d <= 2 else envs[:2]):
                    yield ("hist", ops, env), (ops, env)
        # every decompiler input alone, with 1..24 other graphs alive (other addresses of the graph objects)
        for name in list(DECOMPILE_SRC) + [RAW_FALLBACK]:
            for k in range(1, 25):
                yield ("hist-heap", name, k), ((name,), (0, k))
        # long repetitions of colliding decompiler inputs (recycled graph ids need many allocations)
        for a, b in itertools.permutations(list(DECOMPILE_SRC) + [RAW_FALLBACK], 2):
            yield ("hist-long", a, b), ((a, b) * 6, (1, 0))
    total = runner.explore(make_cases, run_case, timeout=120.0)
    total["viols"].extend(fresh_viols)
    total["evaluations"] += len(OPS) * len(FRESH_HASH_SEEDS)
    states = {k for k in total["extra"] if k.startswith("state_")}
    nstates = len(states)
    for k in states:
        del total["extra"][k]
    total["states"] = nstates
    return runner.finish(
        ID, LEVEL, tier, seed, total, t0,
        rule=f"all histories of <= {depth} calls over {len(OPS)} operations (7 compile texts incl. 3 that raise at different stages, a project on disk with nested imports and three imported files defining the same macro, "
             "4 of them also through one reused compiler object, 6 decompiler inputs reused across calls, a routine set that "
             "takes the fallback path, the CLI's read_routines + decompile, SsbScript compile (good / syntax error) and decompile) x environment choices (gc.collect() between calls; "
             "3 graphs held to shift the heap phase), every decompiler input alone with 1..24 other graphs alive, plus 42 twelve-call alternations of two decompiler inputs; every history runs "
             "in a fresh fork of the pristine template; after every call the result (ops / text / serialised source map / "
             "exception, and 'input routine set structurally unchanged') must equal the pristine result; the pristine results "
             "must equal those of eight fresh interpreters (PYTHONHASHSEED 0..6 and 4242); states = distinct canonical process states "
             "(memo table shape, class-level lists, CLI counter) reached, transitions = calls executed; "
             "non-trivial = history with at least two calls",
        assumptions=["recycling of graph ids is left to CPython's allocator (gc choice and heap phase are explored, not the id itself)",
                     "one decompiler object is used per call (reuse of a decompiler object is not demanded by the property)"],
        bounds={"depth": depth, "operations": len(OPS)}, traces_validated=total["evaluations"])
