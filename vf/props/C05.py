"""C05 — a macro call means its body inlined, in any definition order and file layout.

(P over I) all labelled acyclic call graphs on m macros x all m! definition orders x file layouts
(written to a scratch directory outside /repo and /verif); plus the import-resolution layouts.
"""
from __future__ import annotations

import os
import shutil
import tempfile
import time

from .. import esast as A
from .. import gen_macro as GM
from .. import impl, lts, refsem, runner
from .C01 import dump_ops

ID = "C05"
LEVEL = "model_checking"
_BASE = None
_SEED = 0


def workdir():
    d = os.path.join(_BASE, f"w{os.getpid()}")
    os.makedirs(d, exist_ok=True)
    return d


def write_files(root, files):
    texts = {}
    for rel, prog in files.items():
        path = os.path.join(root, rel)
        os.makedirs(os.path.dirname(path), exist_ok=True)
        text = prog if isinstance(prog, str) else A.render(prog)
        with open(path, "w", encoding="utf-8") as f:
            f.write(text)
        texts[rel] = text
    return texts


def compare(ref_prog, comp, texts):
    ref = refsem.ref_program(ref_prog, impl.PERF)
    viols = []
    states = transitions = 0
    m, entries = lts.machine(comp.routine_ops, jump_index_last=True)
    if len(entries) != len(ref.entries):
        return [{"kind": "routine-count", "detail": {"files": texts}}], 0, 0
    for r, (re_, me) in enumerate(zip(ref.entries, entries)):
        ok, st, tr, rel, mm = lts.product(ref.lts, re_, m, me)
        states += st
        transitions += tr
        if not ok:
            viols.append({"kind": "behaviour-diff", "detail": {"routine": r, "files": texts, "mismatch": mm.as_dict(),
                                                               "compiled": dump_ops(comp.routine_ops)}})
    return viols, states, transitions


def run_macro_case(cid, spec):
    files, macros, main = GM.build_files(spec, _SEED)
    root = os.path.join(workdir(), "proj")
    shutil.rmtree(root, ignore_errors=True)
    texts = write_files(root, files)
    main_path = os.path.join(root, "main.exps")
    try:
        comp = impl.compile_es(texts["main.exps"], main_path)
    except Exception as e:
        return {"outcome": f"reject:{type(e).__name__}",
                "viol": {"kind": "reject", "detail": {"error": f"{type(e).__name__}: {e}"[:300], "files": texts}},
                "nt": cid}
    ref_prog = A.Program(main.routines, macros)
    try:
        viols, st, tr = compare(ref_prog, comp, texts)
    except lts.MalformedMachine as e:
        viols, st, tr = [{"kind": "malformed-output", "detail": {"error": str(e), "files": texts}}], 0, 0
    res = {"outcome": "violation" if viols else "ok", "states": st, "transitions": tr,
           "nt": cid if spec["edges"] else None}
    if viols:
        res["viol"] = viols
    elif hash(repr(cid)) % 400 == 0:
        res["sample"] = {"files": texts, "product_states": st}
    return res


# ------------------------------------------------------------------ parameters in every syntactic position
def substitution_cases():
    """(name, program with a macro, the same program with the call replaced by the body by hand)."""
    def pair(name, params, body, args, inlined):
        macro = f"macro m({', '.join(params)}) {{ {body} }}\ndef 0 {{ before(); ~m({', '.join(args)}); after(); end; }}\n"
        plain = f"def 0 {{ before(); {inlined} after(); end; }}\n"
        return ("subst", name), (macro, plain)
    yield pair("bit-test-and-set", ["$v"], "if ($v[3]) { a(); } $v[2] = 1;", ["$OTHER"], "if ($OTHER[3]) { a(); } $OTHER[2] = 1;")
    yield pair("bit-test-and-set-performance-list", ["$v"], "if ($v[3]) { a(); } $v[2] = 1;", [impl.PERF],
               f"if ({impl.PERF}[3]) {{ a(); }} {impl.PERF}[2] = 1;")
    yield pair("switch-var", ["$v"], "switch ($v) { case 1: a(); break; default: b(); }", ["$SW"], "switch ($SW) { case 1: a(); break; default: b(); }")
    yield pair("scn-and-dungeon-mode", ["$v", "$d"], "if (scn($v) > [1, 2]) { a(); } switch (dungeon_mode($d)) { case 1: b(); break; }",
               ["$SCN", "5"], "if (scn($SCN) > [1, 2]) { a(); } switch (dungeon_mode(5)) { case 1: b(); break; }")
    yield pair("value-of", ["$v", "$w"], "if ($v == value($w)) { a(); } $v += value($w); $w = 3;", ["$A", "$B"],
               "if ($A == value($B)) { a(); } $A += value($B); $B = 3;")
    yield pair("case-headers", ["$c", "$s"], "switch ($X) { case $c: a(); break; case > $c: b(); break; case == value($s): c(); break; }",
               ["7", "$OTHER"], "switch ($X) { case 7: a(); break; case > 7: b(); break; case == value($OTHER): c(); break; }")
    yield pair("context-targets", ["$t"], "with (actor $t) { a(); } b<object $t>(1);", ["ACTOR_X"], "with (actor ACTOR_X) { a(); } b<object ACTOR_X>(1);")
    yield pair("same-parameter-twice", ["$p"], "a($p, $p); if ($p == 1) { b($p); }", ["1"], "a(1, 1); if (1 == 1) { b(1); }")
    yield pair("position-mark-and-strings", ["$m", "$l"], "move($m, 1); say($l);", ["Position<'pm', 1, 2.5>", "{english='e', german='g'}"],
               "move(Position<'pm', 1, 2.5>, 1); say({english='e', german='g'});")
    yield pair("assign-forms", ["$v"], "clear $v; init $v; $v = scn[1, 2]; reset scn($v); adventure_log = $v;", ["$Q"],
               "clear $Q; init $Q; $Q = scn[1, 2]; reset scn($Q); adventure_log = $Q;")
    yield pair("loop-headers", ["$v", "$n"], "while ($v < $n) { a(); } for ($v = 0; $v < $n; $v += 1;) { b(); }", ["$I", "3"],
               "while ($I < 3) { a(); } for ($I = 0; $I < 3; $I += 1;) { b(); }")


def classify(v):
    """Root cause grouping for known_findings.json (development time)."""
    if "bit-test-and-set-performance-list" in v.get("case_id", "") and v["kind"] == "differs-from-inlined-program":
        return "C05-performance-list-as-macro-argument"
    return None


def run_subst_case(cid, case):
    macro_text, plain_text = case
    try:
        plain = impl.compile_es(plain_text)
    except Exception as e:
        return {"outcome": "harness-error", "harness_error": f"hand-inlined program rejected: {e}\n{plain_text}"}
    try:
        comp = impl.compile_es(macro_text)
    except Exception as e:
        return {"outcome": "violation", "nt": cid,
                "viol": {"kind": "reject", "detail": {"error": f"{type(e).__name__}: {e}"[:300], "source": macro_text, "inlined": plain_text}}}
    m1, e1 = lts.machine(comp.routine_ops, jump_index_last=True)
    m2, e2 = lts.machine(plain.routine_ops, jump_index_last=True)
    viols = []
    st = tr = 0
    for a, b in zip(e1, e2):
        ok, s_, t_, rel, mm = lts.product(m1, a, m2, b)
        st += s_
        tr += t_
        if not ok:
            viols.append({"kind": "differs-from-inlined-program", "detail": {"source": macro_text, "inlined": plain_text, "mismatch": mm.as_dict(),
                                                                             "compiled": dump_ops(comp.routine_ops), "inlined_compiled": dump_ops(plain.routine_ops)}})
    res = {"outcome": "violation" if viols else "ok", "states": st, "transitions": tr, "nt": cid}
    if viols:
        res["viol"] = viols
    return res


# ------------------------------------------------------------------ import resolution
def lib_text(tag):
    return f"macro which() {{\n    used_{tag}();\n}}\n"


def import_cases():
    """(case_id, dict(files, main_rel, import_string, lookup_paths, expect_tag|None (=must be rejected)))"""
    decoys = {
        "proj/src/lib.exps": "src", "proj/lib.exps": "proj", "proj/other/lib.exps": "other",
        "inc1/lib.exps": "inc1", "inc2/lib.exps": "inc2", "inc2/only2.exps": "only2", "inc1/sub/lib.exps": "inc1sub",
        "inc2/sub/lib.exps": "inc2sub", "proj/src/sub/lib.exps": "srcsub", "lib.exps": "root",
    }
    base = {k: lib_text(v) for k, v in decoys.items()}

    def case(name, imp, lookups, expect, extra=None, main_rel="proj/src/main.exps"):
        files = dict(base)
        if extra:
            files.update(extra)
        return ("import", name), dict(files=files, main_rel=main_rel, imp=imp, lookups=lookups, expect=expect)

    yield case("rel-dot", "./lib.exps", [], "src")
    yield case("rel-dot-sub", "./sub/lib.exps", [], "srcsub")
    yield case("rel-dotdot", "../lib.exps", [], "proj")
    yield case("rel-dotdot-other", "../other/lib.exps", [], "other")
    yield case("rel-dotdot2", "../../lib.exps", [], "root")
    yield case("rel-ignores-lookup", "./lib.exps", ["@/inc1"], "src")
    yield case("abs", "@/inc2/lib.exps", [], "inc2")
    yield case("abs-ignores-lookup", "@/inc2/lib.exps", ["@/inc1"], "inc2")
    yield case("lookup-first", "lib.exps", ["@/inc1", "@/inc2"], "inc1")
    yield case("lookup-first-rev", "lib.exps", ["@/inc2", "@/inc1"], "inc2")
    yield case("lookup-second", "only2.exps", ["@/inc1", "@/inc2"], "only2")
    yield case("lookup-sub", "sub/lib.exps", ["@/inc1", "@/inc2"], "inc1sub")
    yield case("lookup-sub-rev", "sub/lib.exps", ["@/inc2", "@/inc1"], "inc2sub")
    yield case("lookup-not-source-dir", "lib.exps", ["@/inc2"], "inc2")
    # names that start with a dot are not relative paths; directories are not files
    yield case("lookup-dot-dir", ".hidden/lib.exps", ["@/inc1", "@/inc2"], "hidden2", extra={"inc2/.hidden/lib.exps": lib_text("hidden2"),
                                                                                       "proj/src/.hidden/lib.exps": lib_text("hidden_src")})
    yield case("lookup-dotdot-name", "..lib.exps", ["@/inc1"], "dd1", extra={"inc1/..lib.exps": lib_text("dd1"), "proj/src/..lib.exps": lib_text("dd_src")})
    yield case("rel-directory", "./sub", [], None)
    yield case("lookup-directory", "sub", ["@/inc1"], None)
    yield case("abs-directory", "@/inc1", [], None)
    yield case("lookup-missing", "nothere.exps", ["@/inc1", "@/inc2"], None)
    yield case("lookup-none", "lib.exps", [], None)
    yield case("rel-missing", "./nothere.exps", ["@/inc1"], None)
    # nested: the imported file's own relative import resolves relative to *that* file
    nested = {
        "proj/src/sub/a.exps": 'import "./b.exps";\nmacro which() {\n    ~inner();\n}\n',
        "proj/src/sub/b.exps": "macro inner() {\n    used_sub_b();\n}\n",
        "proj/src/b.exps": "macro inner() {\n    used_src_b();\n}\n",
    }
    yield case("nested-relative", "./sub/a.exps", [], "sub_b", extra=nested)
    nested2 = {
        "proj/src/sub/a.exps": 'import "../b.exps";\nmacro which() {\n    ~inner();\n}\n',
        "proj/src/sub/b.exps": "macro inner() {\n    used_sub_b();\n}\n",
        "proj/src/b.exps": "macro inner() {\n    used_src_b();\n}\n",
    }
    yield case("nested-dotdot", "./sub/a.exps", [], "src_b", extra=nested2)
    nested3 = {
        "inc1/a.exps": 'import "b.exps";\nmacro which() {\n    ~inner();\n}\n',
        "inc1/b.exps": "macro inner() {\n    used_inc1_b();\n}\n",
        "inc2/b.exps": "macro inner() {\n    used_inc2_b();\n}\n",
    }
    yield case("nested-lookup", "a.exps", ["@/inc1", "@/inc2"], "inc1_b", extra=nested3)
    yield case("nested-lookup-rev", "a.exps", ["@/inc2", "@/inc1"], "inc2_b",
               extra={"inc2/a.exps": nested3["inc1/a.exps"], **nested3})
    # diamond: main imports a and b, both import c
    diamond = {
        "proj/src/a.exps": 'import "./c.exps";\nmacro ma() {\n    ~mc();\n    used_a();\n}\n',
        "proj/src/b.exps": 'import "./c.exps";\nmacro mb() {\n    ~mc();\n    used_b();\n}\n',
        "proj/src/c.exps": "macro mc() {\n    used_c();\n}\n",
    }
    yield ("import", "diamond"), dict(files={**base, **diamond}, main_rel="proj/src/main.exps",
                                     imp=["./a.exps", "./b.exps"], lookups=[], expect="diamond")
    for name, extra, imps, want in more_diamonds():
        yield ("import", name), dict(files={**base, **extra}, main_rel="proj/src/main.exps", imp=imps, lookups=[], expect="diamond",
                                     want=want)


def more_diamonds():
    a = 'import "./c.exps";\nmacro ma() {\n    ~mc();\n    used_a();\n}\n'
    c_leaf = "macro mc() {\n    used_c();\n}\n"
    c_imports_d = 'import "./d.exps";\nmacro mc() {\n    ~md();\n    used_c();\n}\n'
    d = "macro md() {\n    used_d();\n}\n"
    b_via_c = 'import "./c.exps";\nmacro mb() {\n    ~mc();\n    used_b();\n}\n'
    b_via_a = 'import "./a.exps";\nmacro mb() {\n    ~ma();\n    used_b();\n}\n'
    sub_b = 'import "../c.exps";\nmacro mb() {\n    ~mc();\n    used_b();\n}\n'
    # the shared file has an import of its own
    yield "diamond-deep", {"proj/src/a.exps": a, "proj/src/b.exps": b_via_c, "proj/src/c.exps": c_imports_d, "proj/src/d.exps": d}, \
        ["./a.exps", "./b.exps"], ["before", "used_d", "used_c", "used_a", "used_d", "used_c", "used_b", "after"]
    # a file with an import is reached directly and through another file (both orders of the imports)
    for name, imps in (("diamond-via", ["./a.exps", "./b.exps"]), ("diamond-via-rev", ["./b.exps", "./a.exps"])):
        yield name, {"proj/src/a.exps": a, "proj/src/b.exps": b_via_a, "proj/src/c.exps": c_leaf}, imps, \
            ["before", "used_c", "used_a", "used_c", "used_a", "used_b", "after"]
    # the same file reached under two spellings of its path
    yield "diamond-two-spellings", {"proj/src/a.exps": a, "proj/src/sub/b.exps": sub_b, "proj/src/c.exps": c_leaf}, \
        ["./a.exps", "./sub/b.exps"], ["before", "used_c", "used_a", "used_c", "used_b", "after"]
    # the same import twice
    yield "import-twice", {"proj/src/a.exps": a, "proj/src/b.exps": b_via_c, "proj/src/c.exps": c_leaf}, \
        ["./a.exps", "./b.exps", "./a.exps"], ["before", "used_c", "used_a", "used_c", "used_b", "after"]


def run_import_case(cid, spec):
    root = os.path.join(workdir(), "imp")
    shutil.rmtree(root, ignore_errors=True)

    def fix(s):
        return s.replace("@/", root + "/")
    files = {k: fix(v) for k, v in spec["files"].items()}
    imps = spec["imp"] if isinstance(spec["imp"], list) else [spec["imp"]]
    if spec["expect"] == "diamond":
        body = "    ~ma();\n    ~mb();\n"
    else:
        body = "    ~which();\n"
    main_text = "".join(f'import "{fix(i)}";\n' for i in imps) + "def 0 {\n    before();\n" + body + "    after();\n}\n"
    files[spec["main_rel"]] = main_text
    write_files(root, files)
    main_path = os.path.join(root, spec["main_rel"])
    lookups = [fix(x) for x in spec["lookups"]]
    nt = cid
    try:
        comp = impl.compile_es(main_text, main_path, lookup_paths=lookups)
    except Exception as e:
        if spec["expect"] is None and type(e).__name__ == "SsbCompilerError":
            return {"outcome": "ok-rejected", "nt": nt}
        return {"outcome": "violation", "nt": nt,
                "viol": {"kind": "import-reject", "detail": {"error": f"{type(e).__name__}: {e}"[:300], "case": repr(cid),
                                                              "import": imps, "lookups": spec["lookups"]}}}
    names = [op.op_code.name for op in comp.routine_ops[0]]
    if spec["expect"] is None:
        return {"outcome": "violation", "nt": nt,
                "viol": {"kind": "import-accepted-missing", "detail": {"ops": names, "case": repr(cid)}}}
    if spec.get("want"):
        want = spec["want"]
    elif spec["expect"] == "diamond":
        want = ["before", "used_c", "used_a", "used_c", "used_b", "after"]
    else:
        want = ["before", "used_" + spec["expect"], "after"]
    if names != want:
        return {"outcome": "violation", "nt": nt,
                "viol": {"kind": "import-wrong-file", "detail": {"ops": names, "expected": want, "case": repr(cid),
                                                                 "import": imps, "lookups": spec["lookups"]}}}
    return {"outcome": "ok", "nt": nt, "sample": {"import": imps, "lookups": spec["lookups"], "ops": names}
            if cid[1] in ("lookup-first", "nested-relative") else None}


def run_case(cid, spec):
    if cid[0] == "import":
        return run_import_case(cid, spec)
    if cid[0] == "subst":
        return run_subst_case(cid, spec)
    return run_macro_case(cid, spec)


def run(tier, seed):
    global _BASE, _SEED
    t0 = time.time()
    _SEED = seed
    impl.warm()
    _BASE = tempfile.mkdtemp(prefix="vf_c05_")
    max_m = 3 if tier == "quick" else 4
    all_layouts = tier != "quick"

    def make_cases():
        yield from import_cases()
        yield from substitution_cases()
        yield from GM.cases(max_m, seed, all_layouts=all_layouts)
    try:
        total = runner.explore(make_cases, run_case, timeout=30.0)
    finally:
        shutil.rmtree(_BASE, ignore_errors=True)
    return runner.finish(
        ID, LEVEL, tier, seed, total, t0,
        rule=f"all labelled acyclic call graphs on m<={max_m} macros x all m! definition orders x file layouts "
             f"({'all downward-closed splits main/lib and main/lib/lib2' if all_layouts else 'all-in-main, all-in-lib, sinks-in-lib, two-level chain'}), "
             "macro bodies with parameter passing, early return, private label and jump; each case written to a scratch "
             "directory, compiled from the main file, and the product Ref(source-level inlining) x Machine(compiled) explored; "
             "plus 22 import-resolution layouts (relative, ../, absolute, lookup paths in both orders, nested, diamond) where "
             "the op trace tells which file was used; non-trivial = call graph with at least one nested call, or an import case",
        assumptions=[
            "source-level inlining as written in vf/refsem.py (parameters substituted, return leaves the expansion, labels private)",
            "parameter names are distinct per macro (capture of free names by an enclosing expansion is not specified)",
        ],
        bounds={"max_macros": max_m, "all_layouts": all_layouts, "import_layouts": 22})
