"""C13 — flat structured programs decompile back to structured, jump-free text.

(I) G-flat(K): K items from {plain statements, if-chain variants, break-terminated switch variants}
+ one terminator, 1-2 routines; oracle on decompile(compile(p)).
"""
from __future__ import annotations

import itertools
import re
import time

from .. import esast as A
from .. import gen_prog as G
from .. import impl, runner

ID = "C13"
LEVEL = "exploration"
_SEED = 0

# item variants (seed independent shapes)
PLAIN = [("op",), ("opctx",), ("with_op",), ("assign",), ("msw",)]
IFS = []
for neg in (False, True):
    for nc in (1, 2):
        for body in (0, 1, 2):
            IFS.append(("if", ((neg, nc, body),), None))
for neg, nc, b1, neg2, b2, eb in [
    (False, 1, 1, False, 1, None), (False, 1, 1, True, 1, None), (True, 1, 1, False, 1, None), (False, 2, 1, False, 0, None),
    (False, 1, 0, False, 1, None), (False, 1, 1, False, 1, 1), (True, 2, 1, True, 2, 1), (False, 1, 0, False, 0, 0),
]:
    IFS.append(("if", ((neg, nc, b1), (neg2, 1, b2)), eb))
for neg, nc, b1, eb in [(False, 1, 1, 1), (True, 1, 1, 1), (False, 2, 1, 0), (False, 1, 0, 1), (True, 2, 0, 0), (False, 1, 2, 2)]:
    IFS.append(("if", ((neg, nc, b1),), eb))
# longer or-groups and chains (appended, so that the positions REDUCED_ITEMS / SMALL_ITEMS refer to stay the same)
IFS_LONG = [
    ("if", ((False, 3, 1),), None), ("if", ((True, 3, 1),), None), ("if", ((False, 4, 1),), None), ("if", ((False, 3, 1),), 1),
    ("if", ((False, 3, 1), (False, 1, 1)), 1), ("if", ((False, 1, 1), (False, 3, 1)), None), ("if", ((True, 4, 0), (False, 2, 1)), 0),
    ("if", ((False, 1, 1), (False, 1, 1), (False, 1, 1)), None), ("if", ((False, 1, 1), (False, 1, 1), (False, 1, 1)), 1),
    ("if", ((False, 1, 1), (True, 1, 1), (False, 2, 1)), 1), ("if", ((False, 1, 0), (False, 1, 1), (False, 1, 0)), None),
    ("if", ((False, 2, 1), (False, 1, 2), (True, 1, 1), (False, 1, 1)), 1),
]
# switch: list of groups; group = (n_headers, is_default_in_group_position or None, body_len); default position
SWITCHES = [
    ("switch", ((1, 1),), None),
    ("switch", ((1, 0),), None),
    ("switch", ((1, 1), (1, 1)), None),
    ("switch", ((2, 1),), None),
    ("switch", ((1, 1),), "last"),
    ("switch", ((1, 1), (1, 2)), "last"),
    ("switch", ((1, 1), (1, 1)), "first"),
    ("switch", ((1, 1), (1, 1)), "middle"),
    ("switch", ((2, 1), (1, 1)), "last"),
    ("switch", ((1, 1), (1, 1), (1, 1)), None),
    ("switch", ((1, 0), (1, 1)), "last"),
    ("switch", ((1, 1),), "grouped"),   # case X: default: body
    ("switch", (), "only"),             # default only
    ("switch", ((1, 1), (1, 1)), "grouped"),      # case A: body  case B: default: body
    ("switch", ((1, 1), (2, 1)), "grouped"),
    ("switch", ((1, 0), (1, 1), (1, 0)), None),   # two non-adjacent cases that are only 'break'
    ("switch", ((1, 0), (1, 1), (1, 0)), "last"),
    ("switch", ((1, 1), (1, 0), (1, 1)), None),
    ("switch", ((2, 0), (1, 1)), None),
    ("switch", ((1, 1), (1, 1), (1, 1)), "middle"),
]
# operations whose opcode can also head a switch, written as plain statements (with and without a context)
SPECIAL_PLAIN = [("swop", "ProcessSpecial", None), ("swop", "message_Menu", "inline"), ("swop", "main_EnterAdventure", "with"),
                 ("swop", "message_SwitchMenu", "inline")]


ALL_ITEMS = PLAIN + IFS + SWITCHES + IFS_LONG + SPECIAL_PLAIN
REDUCED_ITEMS = [PLAIN[0], PLAIN[3], IFS[0], IFS[6], IFS[12], IFS[17], IFS[20], SWITCHES[0], SWITCHES[2], SWITCHES[5], SWITCHES[7]]
SMALL_ITEMS = [PLAIN[0], IFS[0], IFS[17], SWITCHES[4]]


def inst_item(inst, item):
    kind = item[0]
    if kind == "swop":
        args = [("i", 1 + inst.n_op % 3), ("i", 2)]
        name = f"{item[1]}"
        inst.n_op += 1
        if item[2] is None:
            return A.Op(name, args)
        if item[2] == "inline":
            return A.Op(name, args, ctx=("actor", ("i", 1)))
        return A.With("object", ("i", 2), A.Op(name, args))
    if kind in ("op", "opctx", "with_op", "assign", "msw"):
        return inst.stmt(item)
    if kind == "if":
        branches = []
        for neg, nc, blen in item[1]:
            branches.append(A.IfBranch(neg, [inst.cond() for _ in range(nc)], [A.Op(inst.op(), []) for _ in range(blen)]))
        eb = None if item[2] is None else [A.Op(inst.op(), []) for _ in range(item[2])]
        return A.If(branches, eb)
    if kind == "switch":
        header = inst.switch_header()
        items = []
        case_header = inst.case_header

        def body(n):
            return [A.Op(inst.op(), []) for _ in range(n)] + [A.Ctrl("break")]
        groups = list(item[1])
        dpos = item[2]
        if dpos == "first":
            items.append(A.SwitchItem(None, body(1)))
        for gi, (nh, blen) in enumerate(groups):
            if dpos == "middle" and gi == 1:
                items.append(A.SwitchItem(None, body(1)))
            for _ in range(nh - 1):
                items.append(A.SwitchItem(case_header(), []))
            if dpos == "grouped" and gi == len(groups) - 1:
                items.append(A.SwitchItem(case_header(), []))
                items.append(A.SwitchItem(None, body(blen)))
            else:
                items.append(A.SwitchItem(case_header(), body(blen)))
        if dpos in ("last", "only"):
            items.append(A.SwitchItem(None, body(1)))
        return A.Switch(header, items)
    raise ValueError(item)


def flat_cases(seed, tier):
    plans = [(ALL_ITEMS, 1), (ALL_ITEMS, 2), (REDUCED_ITEMS, 3)]
    if tier != "quick":
        plans.append((ALL_ITEMS, 3))
        plans.append((REDUCED_ITEMS, 4))
    seen = set()
    terms = ("return", "end", "hold")
    for items, k in plans:
        for combo in itertools.product(items, repeat=k):
            if combo in seen:
                continue
            seen.add(combo)
            for two in (False, True):
                if two and k > 2:
                    continue
                yield ("flat", combo, two), (combo, two)


def build(combo, two, seed):
    inst = G.Instantiator(seed, compatible_cases=True)
    body = [inst_item(inst, it) for it in combo]
    term = ("return", "end", "hold")[(seed + len(combo) + inst.n_op) % 3]
    body.append(A.Ctrl(term))
    routines = [A.Routine("def", 0, body)]
    if two:
        body2 = [inst_item(inst, it) for it in reversed(combo)] + [A.Ctrl("end")]
        routines.append(A.Routine("for", 1, body2, target_kind="actor", target=("i", 2)))
    return A.Program(routines)


def op_names(prog):
    names = []
    n_assign = 0
    for r in prog.routines:
        for s in A.walk_stmts(r.body):
            if isinstance(s, A.Op):
                names.append(s.name)
            elif isinstance(s, A.Assign):
                n_assign += 1
    return names, n_assign


JUMP_RE = re.compile(r"(?<![A-Za-z0-9_])jump\s*@")


def run_case(cid, case):
    combo, two = case
    prog = build(combo, two, _SEED)
    text = A.render(prog)
    try:
        comp = impl.compile_es(text)
    except Exception as e:
        return {"outcome": f"not-compiled:{type(e).__name__}", "harness_error": f"flat program rejected: {e}\n{text}"}
    try:
        out, _ = impl.decompile_es(comp.routine_ops, comp.routine_infos, comp.named_coroutines)
    except Exception as e:
        return {"outcome": "violation", "nt": cid,
                "viol": {"kind": f"decompile-exception:{type(e).__name__}", "detail": {"source": text, "error": str(e)[:300]}}}
    viols = []
    if out.startswith("//?: is-ssb-script"):
        viols.append({"kind": "fallback", "detail": {"source": text, "output": out}})
    else:
        if JUMP_RE.search(out):
            viols.append({"kind": "jump-in-output", "detail": {"source": text, "output": out}})
        names, n_assign = op_names(prog)
        bad = {}
        for nme in set(names):
            c = len(re.findall(r"(?<![A-Za-z0-9_])" + re.escape(nme) + r"\s*[<(]", out))
            if c != names.count(nme):
                bad[nme] = c
        if bad:
            viols.append({"kind": "op-count", "detail": {"source": text, "output": out, "counts": bad}})
    has_block = any(it[0] in ("if", "switch") for it in combo)
    res = {"outcome": "violation" if viols else "ok", "nt": cid if has_block else None}
    if viols:
        res["viol"] = viols
    elif hash(repr(cid)) % 500 == 0:
        res["sample"] = {"source": text, "output": out}
    return res


def classify(v):
    """Root cause grouping for known_findings.json (development time). No open root cause is left for C13."""
    return None


def run(tier, seed):
    global _SEED
    t0 = time.time()
    _SEED = seed
    impl.warm()

    def make_cases():
        return flat_cases(seed, tier)
    total = runner.explore(make_cases, run_case, timeout=30.0)
    return runner.finish(
        ID, LEVEL, tier, seed, total, t0,
        rule=f"G-flat: all sequences of K items + one terminator; K=1 and K=2 over all {len(ALL_ITEMS)} item variants "
             f"(5 plain statement kinds, {len(IFS) + len(IFS_LONG)} if-chain variants incl. not, or-groups of 1-4 conditions, chains of up to 4 branches, else, empty blocks, "
             f"{len(SWITCHES)} break-terminated switch variants incl. grouped cases and default first/middle/last/grouped/only), "
             f"K=3 over {len(REDUCED_ITEMS)} variants" + ("" if tier == "quick" else f" and over all {len(ALL_ITEMS)}, K=4 over {len(REDUCED_ITEMS)} variants") +
             "; 1 and 2 routines; oracle on decompile(compile(p)): no fallback, no jump statement, every uniquely named "
             "operation printed exactly once; non-trivial = program with at least one if or switch",
        assumptions=["headers/conditions rotate with the seed; shapes are seed independent"],
        bounds={"K": 3 if tier == "quick" else 4})
