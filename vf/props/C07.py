"""C07 — SsbScript is a lossless spelling of SSB ops.

(I) all SSB routine sets of G-ssb (no well-formedness demanded beyond in-range jump targets) plus a
parameter-type sweep: SsbScript decompiler -> SsbScript compiler, compared structurally.
"""
from __future__ import annotations

import time

from .. import gen_ssb as GS
from .. import impl, lts, runner

ID = "C07"
LEVEL = "exploration"
_SEED = 0


def param_sweep_sets():
    """Routine sets exercising every parameter type, arbitrary opcode names, several labels on one op,
    label on the first op of the next routine, empty routines, coroutines."""
    from explorerscript.ssb_converting.ssb_data_types import (
        SsbOperation, SsbOpCode, SsbRoutineInfo, SsbRoutineType, SsbOpParamConstant, SsbOpParamConstString,
        SsbOpParamLanguageString, SsbOpParamFixedPoint, SsbOpParamPositionMarker)
    values = [
        0, 7, -7, 32767, SsbOpParamFixedPoint(1, "5"), SsbOpParamFixedPoint(-3, "25"), SsbOpParamFixedPoint(0, "0"),
        SsbOpParamFixedPoint(SsbOpParamFixedPoint.NegativeZero, "5"),
        SsbOpParamConstant("CONST_A"), SsbOpParamConstant("$VAR_A"), SsbOpParamConstString("plain"),
        SsbOpParamConstString(""), SsbOpParamConstString("it's"), SsbOpParamConstString('say "x"'),
        SsbOpParamConstString("two\nlines"), SsbOpParamLanguageString({"english": "a"}),
        SsbOpParamLanguageString({"english": "a", "german": "b\nc"}),
        SsbOpParamPositionMarker("m0", 0, 0, 1, 2), SsbOpParamPositionMarker("m1", 2, 0, 3, 4),
        SsbOpParamPositionMarker("m2", 0, 2, 5, 6), SsbOpParamPositionMarker("m3", 2, 2, 0, 0),
        # negative and boundary coordinates (-1 is a tempting sentinel), large values
        SsbOpParamPositionMarker("m4", 0, 0, -1, 5), SsbOpParamPositionMarker("m5", 2, 0, -1, -1), SsbOpParamPositionMarker("m6", 0, 2, 4, -1),
        SsbOpParamPositionMarker("m7", 2, 2, -2, 255), -1, -32768, SsbOpParamFixedPoint(-1, "0"), SsbOpParamFixedPoint(127, "996"),
        SsbOpParamConstString("-1"), SsbOpParamConstant("NONE"),
    ]
    names = ["Foo", "foo_bar", "x1", "message_Talk", "WaitExecuteLives", "flag_Set", "Switch", "CaseText", "debug_Print"]
    n = 0
    for i, v in enumerate(values):
        for npre in (0, 1):
            for jump_kind in (None, "Jump", "Branch", "CaseValue", "Call"):
                name = names[(i + npre) % len(names)]
                params = ([3] * npre) + [v]
                ops0 = [SsbOperation(0, SsbOpCode(-1, name), list(params))]
                if jump_kind:
                    p = {"Jump": [], "Branch": [SsbOpParamConstant("$V"), 1], "CaseValue": [2, 5], "Call": []}[jump_kind]
                    p = list(p)
                    p.insert(lts.JUMP_INDEX[jump_kind], 0)
                    ops0.append(SsbOperation(4, SsbOpCode(-1, jump_kind), p))
                    # a second jump to the same op (one label, two users) and one into the next routine
                    p2 = [SsbOpParamConstant("$W"), 2]
                    p2.insert(2, 9)
                    ops0.append(SsbOperation(7, SsbOpCode(-1, "Branch"), p2))
                ops1 = [SsbOperation(9, SsbOpCode(-1, "other"), [v, v]), SsbOperation(12, SsbOpCode(-1, "End"), [])]
                for variant in range(3):
                    if variant == 0:
                        infos = [SsbRoutineInfo(SsbRoutineType.GENERIC, 0), SsbRoutineInfo(SsbRoutineType.ACTOR, 5)]
                        rops = [ops0, ops1]
                        coros = [None, None]
                    elif variant == 1:
                        infos = [SsbRoutineInfo(SsbRoutineType.COROUTINE, 0), SsbRoutineInfo(SsbRoutineType.COROUTINE, 0),
                                 SsbRoutineInfo(SsbRoutineType.COROUTINE, 0)]
                        rops = [ops0, [], ops1]
                        coros = ["CORO_A", "CORO_B", "CORO_C"]
                    else:
                        infos = [SsbRoutineInfo(SsbRoutineType.OBJECT, -1, "OBJ_NAME"),
                                 SsbRoutineInfo(SsbRoutineType.PERFORMER, 2), SsbRoutineInfo(SsbRoutineType.GENERIC, 0)]
                        rops = [ops0, ops1, []]
                        coros = [None, None, None]
                    n += 1
                    yield ("params", n, i, npre, jump_kind, variant), (rops, infos, coros)


def describe(rops):
    return [[f"{op.offset}:{op.op_code.name}{[lts.canon_param(p) for p in op.params]}" for op in r] for r in rops]


def structure(rops, index_table):
    """[(routine, index, name, params without jump, (target routine, target index) | None)]"""
    pos = {}
    for r, ops in enumerate(rops):
        for i, op in enumerate(ops):
            pos[op.offset] = (r, i)
    out = []
    for r, ops in enumerate(rops):
        row = []
        for i, op in enumerate(ops):
            name = op.op_code.name
            params = list(op.params)
            tgt = None
            if name in lts.JUMP_INDEX:
                idx = lts.JUMP_INDEX[name] if index_table else len(params) - 1
                if 0 <= idx < len(params) and isinstance(params[idx], int):
                    tgt = pos.get(params[idx], ("?", params[idx]))
                    del params[idx]
                else:
                    tgt = ("no-jump-param",)
            row.append((name, tuple(lts.canon_param(p) for p in params), tgt))
        out.append(row)
    return out


def compare_sets(rops, infos, coros, comp):
    """Structural comparison modulo renumbering. Input uses the binary format's jump index, output the last param."""
    diffs = []
    a = structure(rops, True)
    b = structure(comp.routine_ops, False)
    if a != b:
        diffs.append({"what": "ops differ", "input": repr(a)[:1500], "output": repr(b)[:1500]})
    ta = impl.routine_table(infos, coros)
    tb = impl.routine_table(comp.routine_infos, comp.named_coroutines)
    if ta != tb:
        diffs.append({"what": "routine table differs", "input": ta, "output": tb})
    return diffs


def run_case(cid, case):
    if cid[0] == "ssb":
        rops, infos, coros = GS.materialize(case, _SEED, info_variant=cid[1])
    else:
        rops, infos, coros = case
    before = describe(rops)
    try:
        text, _ = impl.decompile_ssbs(rops, infos, coros)
    except Exception as e:
        return {"outcome": "violation", "nt": cid,
                "viol": {"kind": f"decompile-exception:{type(e).__name__}", "detail": {"error": str(e)[:300], "input": before}}}
    try:
        comp = impl.compile_ssbs(text)
    except Exception as e:
        return {"outcome": "violation", "nt": cid,
                "viol": {"kind": f"compile-exception:{type(e).__name__}", "detail": {"error": str(e)[:300], "input": before, "text": text}}}
    diffs = compare_sets(rops, infos, coros, comp)
    has_jump = any(op.op_code.name in lts.JUMP_INDEX for r in rops for op in r)
    res = {"outcome": "violation" if diffs else "ok", "nt": cid if has_jump else None}
    if diffs:
        res["viol"] = {"kind": "roundtrip-diff", "detail": {"diffs": diffs, "input": before, "text": text}}
    elif hash(repr(cid)) % 2000 == 0:
        res["sample"] = {"input": before, "text": text}
    return res


def run(tier, seed):
    global _SEED
    t0 = time.time()
    _SEED = seed
    impl.warm()
    n = 3 if tier == "quick" else 4

    def make_cases():
        yield from param_sweep_sets()
        for iv, shape in enumerate(GS.shapes(GS.ALL_KINDS, n, 2, wellformed=False)):
            yield ("ssb", iv % 5 if iv % 7 else 99, shape), shape
        if tier != "quick":
            for iv, shape in enumerate(GS.shapes(("op", "br", "jump", "case"), 3, 3, wellformed=False)):
                yield ("ssb", 99 if iv % 3 == 0 else iv % 5, shape), shape
    total = runner.explore(make_cases, run_case, timeout=30.0)
    return runner.finish(
        ID, LEVEL, tier, seed, total, t0,
        rule=f"all G-ssb routine sets with <= {n} ops in <= 2 routines over all 10 op kinds (every jump target, every split "
             "point incl. empty routines, unreachable ops, cross-routine jumps; routine kinds and opcode/parameter forms rotated), "
             "plus a parameter sweep (21 values of every parameter type x positions x jump kinds x 3 routine-table variants "
             "incl. coroutines); each is printed by SsbScriptSsbDecompiler, compiled by SsbScriptSsbCompiler and compared "
             "op for op (names, parameters, jump target as (routine, index)) and table for table; "
             "non-trivial = set with at least one jump-carrying op",
        assumptions=["string contents with backslashes / blank-led lines are C04's subject and not used here"],
        bounds={"max_ops": n, "max_routines": 2})
