"""C12 — concurrent compilation and decompilation give the sequential results.

(S) all interleavings of 2 (thorough: 3) real threads, one real compile()/convert() call each, under a deterministic
scheduler with scheduling points at the cooperative replacement of graph_utils.cache_lock, at every line of the functions
that touch the shared memo table and the shared ANTLR caches, and at function entries of the structuring passes;
preemption-bounded (iterative context bounding), every execution in a fresh fork of a *cold* template process.
"""
from __future__ import annotations

import hashlib
import json
import os
import pickle
import sys
import time

from .. import impl, lts, runner, sched

ID = "C12"
LEVEL = "model_checking"

TEXT_A = ("def 0 { a(1, 'x'); if (debug || $A == 1) { b(); } elseif not ($B[2]) { c(); } else { d(); } "
          "switch ($V) { case 1: e(); break; case > 2: f(); default: g(); } end; }")
TEXT_B = ("macro m($p) { x($p); if ($p == 1) { return; } y(); }\n"
          "def 0 { while ($C < 3) { ~m(1); continue; } for (i(); $D >= value($E); j();) { ~m('s'); } hold; }\n"
          "coro K { message_SwitchTalk ($T) { case 1: 'one' default: {english='two'} } return; }")


def raw_set(which):
    """Decompiler inputs built without the parser (the parser caches must stay cold)."""
    from explorerscript.ssb_converting.ssb_data_types import SsbOperation, SsbOpCode, SsbRoutineInfo, SsbRoutineType, SsbOpParamConstant

    def O(off, name, params):
        return SsbOperation(off, SsbOpCode(-1, name), params)
    C = SsbOpParamConstant
    if which == "X":     # if / elseif / else + switch: several common-next-vertex searches, several cache clears
        ops = [O(1, "a", []), O(2, "BranchDebug", [1, 8]), O(3, "Branch", [C("$A"), 1, 10]), O(4, "c", []), O(5, "Jump", [12]),
               O(8, "b", []), O(9, "Jump", [12]), O(10, "d", []), O(12, "Switch", [C("$V")]), O(13, "Case", [1, 17]),
               O(14, "CaseValue", [3, 2, 19]), O(15, "g", []), O(16, "Jump", [21]), O(17, "e", []), O(18, "Jump", [21]),
               O(19, "f", []), O(21, "End", [])]
    elif which == "Y":   # same shape, other payload (edge ids coincide with X)
        ops = [O(1, "p", []), O(2, "BranchEdit", [1, 8]), O(3, "BranchBit", [C("$B"), 2, 10]), O(4, "r", []), O(5, "Jump", [12]),
               O(8, "q", []), O(9, "Jump", [12]), O(10, "s", []), O(12, "SwitchRandom", [4]), O(13, "Case", [0, 17]),
               O(14, "CaseVariable", [5, C("$W"), 19]), O(15, "v", []), O(16, "Jump", [21]), O(17, "t", []), O(18, "Jump", [21]),
               O(19, "u", []), O(21, "Hold", [])]
    elif which == "S":   # one if / else: a single common-next-vertex search (small enough for two preemptions in the quick tier)
        ops = [O(1, "a", []), O(2, "BranchDebug", [1, 6]), O(3, "c", []), O(4, "Jump", [7]), O(6, "b", []), O(7, "d", []), O(8, "End", [])]
    elif which == "T":   # same shape (edge ids coincide with S), other payload
        ops = [O(1, "p", []), O(2, "BranchEdit", [1, 6]), O(3, "r", []), O(4, "Jump", [7]), O(6, "q", []), O(7, "s", []), O(8, "Hold", [])]
    elif which == "L":   # forever with a break_loop and code behind it (the writers keep a stack of open loops)
        ops = [O(1, "z", []), O(2, "a", []), O(3, "BranchDebug", [1, 8]), O(6, "b", []), O(7, "Jump", [2]), O(8, "c", []), O(9, "End", [])]
    elif which == "M":   # the same with other payload and a longer body
        ops = [O(1, "o", []), O(2, "p", []), O(3, "BranchEdit", [1, 9]), O(6, "q", []), O(7, "r", []), O(8, "Jump", [2]), O(9, "s", []),
               O(10, "t", []), O(11, "Hold", [])]
    else:                # Z: loop + ifs, different size
        ops = [O(1, "k", []), O(2, "BranchVariation", [1, 6]), O(3, "l", []), O(4, "Jump", [1]), O(6, "Branch", [C("$Q"), 2, 9]),
               O(7, "m", []), O(8, "Jump", [10]), O(9, "n", []), O(10, "Return", [])]
    return [ops], [SsbRoutineInfo(SsbRoutineType.GENERIC, 0)], [None]


def body_decompile(which):
    def body():
        rops, infos, coros = raw_set(which)
        text, sm = impl.decompile_es(rops, infos, coros)
        return ("decompile", which, text, sm.serialize())
    return body


def body_compile(text, tag):
    def body():
        comp = impl.compile_es(text)
        from .. import decomp
        return ("compile", tag, decomp.describe(comp.routine_ops), impl.routine_table(comp.routine_infos, comp.named_coroutines),
                comp.source_map.serialize())
    return body


BODIES = {
    "dX": lambda: body_decompile("X"), "dY": lambda: body_decompile("Y"), "dZ": lambda: body_decompile("Z"),
    "cA": lambda: body_compile(TEXT_A, "A"), "cB": lambda: body_compile(TEXT_B, "B"),
    "dL": lambda: body_decompile("L"), "dM": lambda: body_decompile("M"),
    "dS": lambda: body_decompile("S"), "dT": lambda: body_decompile("T"),
}


def make_setup(names, granularity):
    """granularity: 'memo-lines' | 'memo-lines+entries' | 'antlr-lines' | 'antlr-entries' | 'writer-entries'"""
    def setup(s):
        from explorerscript.ssb_converting.decompiler.graph_building import graph_utils, graph_minimizer
        import explorerscript.ssb_converting.ssb_decompiler as dec
        bodies = [BODIES[n]() for n in names]
        line_codes, entry_codes = [], []
        memo = sched.code_objects_of(graph_utils, {"find_first_common_next_vertex_in_edges",
                                                   "find_first_common_next_vertex_in_edges__clear_cache"})
        if granularity.startswith("memo"):
            line_codes += memo
            if "entries" in granularity:
                entry_codes += sched.code_objects_of(graph_minimizer) + sched.code_objects_of(graph_utils) + sched.code_objects_of(dec)
        if granularity == "loop-writer-entries":
            import importlib
            base = "explorerscript.ssb_converting.decompiler.write_handlers."
            for mod in ("labels.forever_start", "label_jumps.forever_break", "label_jumps.forever_continue"):
                entry_codes += sched.code_objects_of(importlib.import_module(base + mod))
            entry_codes += sched.code_objects_of(importlib.import_module(base + "block"), {"write_content"})
        if granularity == "writer-entries":
            # the write handlers share class-level state of the decompiler (labels already printed, stack of open loops)
            import importlib
            base = "explorerscript.ssb_converting.decompiler.write_handlers."
            for mod in ("block", "label", "label_jump", "routine", "labels.forever_start", "label_jumps.forever_break",
                        "label_jumps.forever_continue", "label_jumps.if_start", "label_jumps.jump", "simple_op"):
                entry_codes += sched.code_objects_of(importlib.import_module(base + mod))
            entry_codes += sched.code_objects_of(dec)
        if granularity.startswith("antlr"):
            import antlr4.atn.ParserATNSimulator as P
            import antlr4.atn.LexerATNSimulator as L
            import antlr4.PredictionContext as PC
            import antlr4.dfa.DFA as D
            hot = (sched.code_objects_of(P, {"addDFAState", "addDFAEdge"}) + sched.code_objects_of(L, {"addDFAState", "addDFAEdge"}) +
                   sched.code_objects_of(PC, {"add", "get"}) + sched.code_objects_of(D, {"setPrecedenceStartState", "setPrecedenceDfa"}))
            if granularity == "antlr-lines":
                line_codes += hot
            else:
                entry_codes += hot
            entry_codes += memo

        def install_lock(lock):
            graph_utils.cache_lock = lock
        return bodies, line_codes, entry_codes, install_lock
    return setup


def digest(x):
    return hashlib.sha1(pickle.dumps(x)).hexdigest()[:12]


_SEQ = {}


def sequential(name):
    """Result of one call run alone in a cold fork."""
    if name not in _SEQ:
        setup = make_setup([name], "memo-lines")
        (prefix, out), = list(sched.run_many(setup, [()], 1, 120.0))
        if out.get("error") or out["results"][0][0] != "ok":
            raise RuntimeError(f"sequential run of {name} failed: {out}")
        _SEQ[name] = out["results"][0]
    return _SEQ[name]


def run(tier, seed):
    t0 = time.time()
    # cold template: import only, never compile in this process
    import explorerscript.ssb_converting.ssb_compiler  # noqa
    import explorerscript.ssb_converting.ssb_decompiler  # noqa
    import explorerscript.source_map  # noqa
    import logging
    import warnings
    logging.disable(logging.CRITICAL)
    warnings.simplefilter("ignore")
    quick = tier == "quick"
    if os.environ.get("VERIF_REPLAY_FILE"):
        return replay(os.environ["VERIF_REPLAY_FILE"])
    if quick:
        plans = [(("dX", "dY"), "memo-lines", 1), (("dX", "dZ"), "memo-lines+entries", 1), (("dZ", "dX"), "memo-lines", 1),
                 (("cA", "cB"), "antlr-entries", 1), (("cA", "dX"), "antlr-entries", 1), (("dL", "dM"), "writer-entries", 1),
                 # two preemptions on the smallest inputs that reach the shared state
                 (("dS", "dT"), "memo-lines", 2), (("dL", "dM"), "loop-writer-entries", 2)]
    else:
        # sized by the 'schedules_at_next_bound' figures of the quick tier (about 60 executions / s on 16 cores)
        plans = [(("dX", "dY"), "memo-lines", 2), (("dZ", "dY"), "memo-lines", 2), (("dX", "dX"), "memo-lines", 2),
                 (("dX", "dZ"), "memo-lines+entries", 1), (("cA", "cB"), "antlr-lines", 1), (("cB", "cA"), "antlr-entries", 1),
                 (("cA", "dX"), "antlr-entries", 2), (("dX", "dY", "dZ"), "memo-lines", 1), (("cA", "cB", "dX"), "antlr-entries", 1),
                 (("dL", "dM"), "writer-entries", 2)]
    if os.environ.get("VERIF_C12_ONLY"):   # development only: "dX,dY:memo-lines:2"
        names, gran, bound = os.environ["VERIF_C12_ONLY"].split(":")
        plans = [(tuple(names.split(",")), gran, int(bound))]
    viols = []
    total_exec = total_points = 0
    outcomes = {}
    samples = []
    plan_stats = []
    harness_errors = []
    for names, gran, bound in plans:
        expect = [sequential(n) for n in names]
        setup = make_setup(list(names), gran)

        def check(prefix, out, names=names, expect=expect, gran=gran):
            if out.get("error"):
                kind = "deadlock" if "deadlock" in out["error"] else "harness"
                if kind == "harness":
                    harness_errors.append(f"{names} {gran} prefix={prefix}: {out['error'][:300]}")
                    return None
                return {"kind": "deadlock", "detail": {"threads": names, "granularity": gran, "schedule": list(prefix), "error": out["error"]}}
            for i, (res, exp) in enumerate(zip(out["results"], expect)):
                if res != exp:
                    return {"kind": "differs-from-sequential" if res[0] == "ok" else f"raised:{res[1]}",
                            "detail": {"threads": names, "granularity": gran, "schedule": list(prefix), "thread": i,
                                       "got": json.dumps(res)[:1500], "sequential": json.dumps(exp)[:600]}}
            return None
        st = sched.explore(setup, bound, check, nworkers=runner.ncores(), timeout=180.0)
        total_exec += st["executions"]
        total_points += st["points"]
        for k, v in st["outcomes"].items():
            outcomes[k] = outcomes.get(k, 0) + v
        plan_stats.append({"threads": list(names), "granularity": gran, "bound": bound, "executions_by_bound": st["by_bound"],
                           "scheduling_points_max": st["max_points"], "schedules_at_next_bound": st.get("next_bound_size")})
        for v in st["violations"]:
            v["case_hash"] = runner.case_hash((names, gran, tuple(v["detail"]["schedule"])))
            v["case_id"] = repr((names, gran, v["detail"]["schedule"]))[:300]
            # replay twice: a failure must be reproducible, otherwise it is a harness problem
            reps = [out for _, out in sched.run_many(setup, [tuple(v["detail"]["schedule"])] * 2, 2, 180.0)]
            if all(check(tuple(v["detail"]["schedule"]), r) is not None for r in reps):
                viols.append(v)
            else:
                harness_errors.append(f"violation not reproducible on replay: {v['case_id']}")
        if len(samples) < 4:
            samples.append({"threads": list(names), "granularity": gran, "bound": bound, "executions": st["executions"]})
    # free-running pass of the same bodies (no scheduler): guards against hand-off artefacts
    free = free_running(60 if quick else 200)
    total = runner._new_acc()
    total["evaluations"] = total_exec + free["runs"]
    total["nt_extra"] = total_exec - len(plans)   # every schedule but the default one of each plan has >= 1 deviation
    total["states"] = total_points
    total["transitions"] = total_points
    total["outcomes"] = outcomes
    total["viols"] = viols + free["viols"]
    total["samples"] = samples
    total["harness_errors"] = [{"case": "C12", "error": e} for e in harness_errors[:5]]
    return runner.finish(
        ID, LEVEL, tier, seed, total, t0,
        rule="per plan: N real threads with one real call each (decompile of hand-built routine sets X/Y/Z with colliding "
             "memo keys; cold compile of two programs), all schedules with <= bound preemptions; scheduling points: the "
             "cooperative replacement of cache_lock, every line of find_first_common_next_vertex_in_edges and its clear_cache, "
             "function entries of the graph passes ('+entries'), lines or entries of antlr4's addDFAState / addDFAEdge / "
             "PredictionContextCache ('antlr-*'), function entries of the block / label / loop / if write handlers and of the "
             "decompiler object ('writer-entries', two routine sets with a forever loop each); every execution in a fresh fork of a cold template; oracle: each call's "
             "result equals its result when run alone, no exception, no deadlock; failures are replayed twice; plus a "
             "free-running pass of the same bodies without scheduler; states / transitions = scheduling points passed over all "
             "executions; evaluations = executions; non-trivial = schedule with at least one deviation",
        assumptions=["explored schedules are feasible GIL schedules (switches only at the listed points): no false alarm, absence "
                     "of a violation is relative to these points", "CPython 3.12 sys.monitoring"],
        bounds={"plans": plan_stats}, traces_validated=total_exec,
        extra={"plans": plan_stats, "free_running_runs": free["runs"]})


def free_running(n):
    """Same bodies on real free-running threads in forked children; results must equal the sequential ones."""
    import threading
    viols = []
    runs = 0
    pairs = [("dX", "dY"), ("dX", "dZ"), ("cA", "cB"), ("cA", "dX")]
    for k in range(n):
        names = pairs[k % len(pairs)]
        r, w = os.pipe()
        pid = os.fork()
        if pid == 0:
            os.close(r)
            runner.quiet()
            sys.setswitchinterval(1e-6)
            res = [None] * len(names)

            def run_one(i, nm):
                try:
                    res[i] = ("ok", BODIES[nm]()())
                except BaseException as e:
                    res[i] = ("raised", type(e).__name__, str(e)[:300], "")
            ts = [threading.Thread(target=run_one, args=(i, nm)) for i, nm in enumerate(names)]
            for t in ts:
                t.start()
            for t in ts:
                t.join()
            os.write(w, pickle.dumps(res))
            os._exit(0)
        os.close(w)
        buf = b""
        while True:
            chunk = os.read(r, 1 << 20)
            if not chunk:
                break
            buf += chunk
        os.close(r)
        os.waitpid(pid, 0)
        runs += 1
        res = pickle.loads(buf) if buf else None
        exp = [sequential(nm) for nm in names]
        if res is None or any(a != b for a, b in zip(res, exp)):
            viols.append({"kind": "free-running-differs", "case_hash": runner.case_hash(("free", names, k)), "case_id": repr(("free", names)),
                          "detail": {"threads": names, "got": json.dumps(res)[:1000]}})
    return {"runs": runs, "viols": viols}


def replay(path):
    """Re-execute one recorded schedule twice (no exploration) and compare with the sequential results."""
    rec = json.load(open(path))
    d = rec["detail"]
    if "schedule" not in d:
        print("this record has no schedule (free-running pass): run the check instead")
        return 2
    names, gran = list(d["threads"]), d["granularity"]
    prefix = tuple(tuple(x) if isinstance(x, list) else x for x in d["schedule"])
    expect = [sequential(n) for n in names]
    setup = make_setup(names, gran)
    bad = 0
    for _, out in sched.run_many(setup, [prefix, prefix], 2, 180.0):
        ok = not out.get("error") and all(r == e for r, e in zip(out["results"], expect))
        print("schedule", list(prefix), "->", "as sequential" if ok else "DIFFERS / error: " + str(out.get("error") or [r[:2] for r in out["results"]]))
        bad += 0 if ok else 1
    if bad:
        print(f"VIOLATION property={ID} replay={path}")
        return 1
    return 0
