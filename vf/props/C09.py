"""C09 — decompile-time source map points at the statement printed for each op (both decompilers)."""
from __future__ import annotations

import copy
import time

from .. import decomp, gen_ssb as GS, impl, lts, runner
from . import decomp_common as DC

ID = "C09"
LEVEL = "exploration"


def string_sets(seed):
    """Inputs with multi-line string and language-string parameters before, inside and after blocks."""
    from explorerscript.ssb_converting.ssb_data_types import (
        SsbOperation, SsbOpCode, SsbRoutineInfo, SsbRoutineType, SsbOpParamConstant, SsbOpParamConstString,
        SsbOpParamLanguageString, SsbOpParamPositionMarker)
    strings = [
        SsbOpParamConstString("one line"), SsbOpParamConstString("two\nlines"), SsbOpParamConstString("a\nb\nc"),
        SsbOpParamLanguageString({"english": "single"}), SsbOpParamLanguageString({"english": "x\ny", "german": "z"}),
        SsbOpParamLanguageString({"english": "p", "french": "q\nr\ns"}),
        # characters that str.splitlines() treats as line ends but that do not end a line of the emitted text
        SsbOpParamConstString("sep\u2028arator"), SsbOpParamConstString("form\x0cfeed\nand a line"),
        SsbOpParamLanguageString({"english": "v\x0bt", "german": "nel\x85\nx"}), SsbOpParamConstString("fs\x1cgs\x1d\u2029"),
    ]
    n = 0
    for s1 in strings:
        for s2 in strings:
            for layout in range(4):
                def O(off, name, params):
                    return SsbOperation(off, SsbOpCode(-1, name), params)
                if layout == 0:    # before / inside / after an if
                    ops = [O(0, "say", [copy.deepcopy(s1)]), O(3, "BranchDebug", [1, 9]), O(6, "Jump", [12]),
                           O(9, "say_in", [1, copy.deepcopy(s2)]), O(12, "say_after", [copy.deepcopy(s1)]), O(15, "End", [])]
                elif layout == 1:  # message switch with multi-line texts, then an op
                    ops = [O(0, "message_SwitchTalk", [SsbOpParamConstant("$K")]), O(3, "CaseText", [1, copy.deepcopy(s1)]),
                           O(6, "CaseText", [2, copy.deepcopy(s2)]), O(9, "DefaultText", [copy.deepcopy(s1)]),
                           O(12, "after", []), O(13, "Return", [])]
                elif layout == 2:  # switch with menu case holding a string, bodies with strings
                    ops = [O(0, "message_SwitchMenu", [0, 1]), O(3, "CaseMenu", [copy.deepcopy(s1), 9]), O(6, "Jump", [12]),
                           O(9, "in_case", [copy.deepcopy(s2)]), O(12, "after", [copy.deepcopy(s2)]), O(15, "Hold", [])]
                else:              # loop body with strings
                    ops = [O(0, "pre", [copy.deepcopy(s1)]), O(3, "body", [copy.deepcopy(s2)]), O(6, "BranchVariation", [1, 3]),
                           O(9, "post", [copy.deepcopy(s1), SsbOpParamPositionMarker("m", 2, 0, 1, 2)]), O(14, "End", [])]
                n += 1
                yield ("strings", n, layout), ([ops], [SsbRoutineInfo(SsbRoutineType.GENERIC, 0)], [None])


def check_ssbscript(rops, infos, coros):
    """C09 for the SsbScript decompiler: every op has an entry at its statement; compile map agrees on the line."""
    before = decomp.describe(rops)
    work = copy.deepcopy(rops)
    text, sm = impl.decompile_ssbs(work, copy.deepcopy(infos), coros)
    comp2 = impl.compile_ssbs(text)
    viols = []
    lines = text.split("\n")
    entries = dict(iter(sm))
    flat_in = [op for r in rops for op in r]
    flat_out = [op for r in comp2.routine_ops for op in r]
    if len(flat_in) != len(flat_out):
        return [], text  # C07's business
    offs = {op.offset for op in flat_in}
    for k in entries:
        if k not in offs:
            viols.append({"kind": "ssbs:key-not-an-input-offset", "detail": {"input": before, "text": text, "key": k}})
    for x, y in zip(flat_in, flat_out):
        ent = entries.get(x.offset)
        if ent is None:
            viols.append({"kind": "ssbs:op-without-entry", "detail": {"input": before, "text": text, "op": f"{x.op_code.name}@{x.offset}"}})
            continue
        if not (0 <= ent.line < len(lines)):
            viols.append({"kind": "ssbs:line-out-of-range", "detail": {"input": before, "text": text, "entry": [ent.line, ent.column]}})
            continue
        ln = lines[ent.line]
        if ln[ent.column:ent.column + len(x.op_code.name) + 1] != x.op_code.name + "(" or ln[:ent.column].strip() != "":
            viols.append({"kind": "ssbs:not-at-statement", "detail": {"input": before, "text": text, "op": f"{x.op_code.name}@{x.offset}",
                                                                     "entry": [ent.line, ent.column], "line_text": ln}})
        cm = comp2.source_map.get_op_line_and_col(y.offset)
        if cm is not None and cm.line != ent.line:
            viols.append({"kind": "ssbs:line-differs-from-compile-map", "detail": {
                "input": before, "text": text, "op": f"{x.op_code.name}@{x.offset}", "decompile_entry": [ent.line, ent.column],
                "compile_entry": [cm.line, cm.column]}})
    return viols, text


def run_case(cid, case):
    if cid[0] == "strings":
        rops, infos, coros = case
        src = None
    else:
        m = DC.materialise(cid, case)
        if m is None:
            return {"outcome": "input-outside-quantifier"}
        rops, infos, coros, src, prog = m
    viols = []
    try:
        v2, _ = check_ssbscript(rops, infos, coros)
        viols += v2
    except Exception as e:
        return {"outcome": "ssbscript-raised (C07)"}
    an = decomp.analyse(rops, infos, coros, want_c09=True)
    if an.exception:
        if an.exception[0].startswith("Harness"):
            return {"outcome": "harness-error", "harness_error": str(an.exception)}
        return {"outcome": "decompiler-raised (C06)"}
    if an.c02:
        oc = "behaviour-not-preserved (C02)"
    else:
        oc = "fallback" if an.fallback else "structured"
        viols += an.c09
    multiline = an.text is not None and any("\n" in str(p) for r in rops for op in r for p in op.params if hasattr(p, "indent"))
    res = {"outcome": oc if not viols else "violation", "nt": cid if (DC.nontrivial(rops) or multiline) else None,
           "states": an.states, "transitions": an.transitions, "extra": {"multiline_param_inputs": 1 if multiline else 0}}
    if viols:
        for v in viols:
            if src:
                v["detail"]["source"] = src
        res["viol"] = viols
    elif hash(repr(cid)) % 3000 == 0 or (cid[0] == "strings" and cid[1] % 40 == 0):
        res["sample"] = {"input": decomp.describe(rops), "text": an.text,
                         "map": {str(k): [v.line, v.column] for k, v in iter(an.source_map)}}
    return res


def run(tier, seed):
    t0 = time.time()
    DC.SEED = seed
    impl.warm()
    base = DC.make_cases_for(tier, seed)

    def make_cases():
        yield from string_sets(seed)
        yield from base()
    total = runner.explore(make_cases, run_case, timeout=20.0)
    return runner.finish(
        ID, LEVEL, tier, seed, total, t0,
        rule=DC.rule_text(tier) + ", plus 144 routine sets with single-/multi-line string and language-string parameters before, "
             "inside and after ifs, message switches, menu switches and loops; for both decompilers: every key is an input "
             "offset, the entry is the first non-blank of a line of the text, every op related (by the product relation "
             "Machine(x) x Machine(compile(text))) to an op of the recompiled text has an entry (non-first members of a || group "
             "exempt) whose line equals the line the compile-time map gives the related op; non-trivial = input with a "
             "jump-carrying op or a multi-line parameter",
        assumptions=["checked only where C02 holds for the input (otherwise 'the statement printed for the op' is undefined)",
                     "the compile-time map of the recompiled text is right (C08 checks it)"],
        bounds={"tier": tier})
