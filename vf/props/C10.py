"""C10 — compilation fails only in documented ways and rejects meaningless programs.

(I) token strings, character strings, single token-level corruptions of valid programs, the statically
meaningless families in every context, degenerate routine tables, all import digraphs on <= 3 files.
"""
from __future__ import annotations

import itertools
import os
import shutil
import tempfile
import time

from .. import esast as A
from .. import gen_forms, gen_layout as GL, gen_prog as G
from .. import impl, runner
from . import C05, C16

ID = "C10"
LEVEL = "exploration"

TOKENS = ["def", "0", "1", "{", "}", "(", ")", ";", "a", "@", "x", "jump", "if", "debug", "switch", "case", "default", ":",
          "//?:", "is-ssb-script: 1", "\n", "macro", "~m", "coro", "'s'", "/*", "alias previous", "for", "$v", "=", "import"]
CHARS = ["d", "e", "f", " ", "0", "{", "}", "(", ")", ";", "@", "'", "/", "?", ":", "\n"]


def outcome_of(text, file_name="/nonexistent-dir/main.exps", lookups=None):
    """-> (class, detail). class in ok | ParseError | SsbCompilerError | ValueError | other:<Type>"""
    from explorerscript.ssb_converting.ssb_compiler import ExplorerScriptSsbCompiler
    from explorerscript.error import ParseError, SsbCompilerError
    c = ExplorerScriptSsbCompiler(impl.PERF, lookups)
    try:
        c.compile(text, file_name)
    except ParseError:
        return "ParseError", c
    except SsbCompilerError as e:
        return "SsbCompilerError", c
    except ValueError:
        return "ValueError", c
    except RecursionError:
        return "other:RecursionError", c
    except Exception as e:
        return f"other:{type(e).__name__}@{where(e)}", c
    return "ok", c


def where(exc):
    tb = exc.__traceback__
    last = "?"
    while tb is not None:
        fn = tb.tb_frame.f_code.co_filename
        if "/explorerscript/" in fn:
            last = f"{os.path.basename(fn)}:{tb.tb_frame.f_code.co_name}"
        tb = tb.tb_next
    return last


def judge(text, must_reject=False, tag=None, **kw):
    oc, c = outcome_of(text, **kw)
    if oc.startswith("other:"):
        return oc, {"kind": "undocumented-exception:" + oc[6:], "detail": {"text": text, "what": tag}}
    if must_reject:
        if oc == "ok":
            return oc, {"kind": "meaningless-program-accepted", "detail": {"text": text, "what": tag,
                                                                        "ops": C05.dump_ops(c.routine_ops) if c.routine_ops else None}}
        if c.routine_ops is not None or c.routine_infos is not None:
            return oc, {"kind": "output-left-after-rejection", "detail": {"text": text, "what": tag}}
    return oc, None


# ------------------------------------------------------------------ must-reject families
def contexts():
    """(name, wrapper) ; wrapper(stmt_text) -> full program text; flags say what encloses the hole."""
    def W(pre, post):
        return lambda s: pre + s + post
    yield "routine", W("def 0 { a(); ", " b(); }"), set()
    yield "if", W("def 0 { if (debug) { ", " } b(); }"), set()
    yield "else", W("def 0 { if (debug) { a(); } else { ", " } }"), set()
    yield "elseif", W("def 0 { if (debug) { a(); } elseif not ($A == 1) { ", " } }"), set()
    yield "case", W("def 0 { switch ($V) { case 1: ", " break; default: b(); } }"), {"case"}
    yield "default", W("def 0 { switch ($V) { case 1: a(); default: ", " } }"), {"case"}
    yield "forever", W("def 0 { forever { ", " a(); } }"), {"loop"}
    yield "while", W("def 0 { while ($A == 1) { ", " } end; }"), {"loop"}
    yield "for", W("def 0 { for (i(); $A < 3; j();) { ", " } }"), {"loop"}
    yield "loop-in-case", W("def 0 { switch ($V) { case 1: forever { ", " } } }"), {"loop", "case"}
    yield "case-in-loop", W("def 0 { while (debug) { switch ($V) { case 1: ", " } } }"), {"loop", "case"}
    yield "macro", W("macro m() { a(); ", " } def 0 { ~m(); }"), {"macro"}
    yield "macro-if", W("macro m($p) { if ($p == 1) { ", " } } def 0 { ~m(1); }"), {"macro"}
    yield "second-routine", W("def 0 { a(); } def 1 for actor 3 { ", " hold; }"), set()
    yield "coro", W("coro C { ", " return; }"), set()


def must_reject_cases():
    for cname, wrap, flags in contexts():
        if "case" not in flags:
            yield ("break-outside-case", cname), wrap("break;")
        if "loop" not in flags:
            yield ("continue-outside-loop", cname), wrap("continue;")
            yield ("break_loop-outside-loop", cname), wrap("break_loop;")
        yield ("jump-undefined", cname), wrap("jump @nowhere;")
        yield ("call-undefined", cname), wrap("call @nowhere;")
        yield ("switch-ends-in-empty-case", cname), wrap("switch ($S) { case 1: x(); case 2: }")
        yield ("switch-ends-in-empty-default", cname), wrap("switch ($S) { case 1: x(); break; default: }")
        yield ("switch-only-empty-case", cname), wrap("switch ($S) { case 1: }")
        yield ("two-defaults", cname), wrap("switch ($S) { default: x(); break; case 1: y(); default: z(); }")
        yield ("two-defaults-msw", cname), wrap("message_SwitchTalk ($S) { default: 'x' default: 'y' }")
        yield ("statements-in-message-switch", cname), wrap("message_SwitchTalk ($S) { case 1: x(); }")
        yield ("statements-in-message-switch-default", cname), wrap("message_SwitchMonologue ($S) { case 1: 'a' default: x(); }")
        yield ("also:string-in-regular-switch", cname), wrap("switch ($S) { case 1: 'text' }")
        yield ("label-in-with", cname), wrap("with (actor 1) { @lbl; }")
        yield ("not-on-ordinary-bit", cname), wrap("if (not $ORD[3]) { x(); }")
        yield ("not-on-ordinary-bit-while", cname), wrap("while (not $ORD[0]) { x(); }")
        yield ("unknown-macro", cname), wrap("~does_not_exist();")
        yield ("also:value-with-index", cname), wrap("$A[1] = value($B);")
        yield ("also:scn-bad-operator", cname), wrap("if (scn($S) != [1, 2]) { x(); }")
        yield ("also:scn-bad-index", cname), wrap("switch (scn($S)[2]) { case 1: x(); }")
        yield ("also:with-bad-target-kind", cname), wrap("with (monster 1) { x(); }")
        yield ("also:inline-ctx-in-with", cname), wrap("with (actor 1) { x<object 2>(); }")
        yield ("also:posmark-bad-fraction", cname), wrap("x(Position<'m', 1.25, 2>);")
        if cname == "routine":
            for frac in ("20.05", "1.55", "3.505", "0.05", "2.6", "-1.05"):
                yield ("also:posmark-bad-fraction-" + frac, cname), wrap(f"x(Position<'m', {frac}, 2>);")
                yield ("also:posmark-bad-fraction-y-" + frac, cname), wrap(f"x(Position<'m', 2, {frac}>);")
        if "macro" not in flags:
            yield ("too-few-macro-args", cname), "macro two($a, $b) { x($a, $b); } " + wrap("~two(1);")
    # the same control statements behind a construct that has already been closed (in the same block, and in the routine
    # before): scopes the compiler opened for it must be gone
    closed = {
        "forever": "forever { a(); break_loop; } ", "while": "while ($A == 1) { a(); } ", "while-not": "while not ($A == 1) { a(); } ",
        "for": "for (i(); $A < 3; j();) { a(); } ", "switch": "switch ($V) { case 1: a(); break; } ",
        "switch-default": "switch ($V) { case 1: a(); break; default: b(); } ", "if": "if (debug) { a(); } else { b(); } ",
        "with": "with (actor 1) { a(); } ", "msw": "message_SwitchTalk ($S) { case 1: 'x' default: 'y' } ",
        "loop-in-loop": "forever { while not (debug) { a(); } break_loop; } ",
    }
    for cname, wrap, flags in contexts():
        if cname not in ("routine", "if", "second-routine", "macro", "coro", "case", "forever"):
            continue
        for kname, pre in closed.items():
            for stmt, fam, need in (("break;", "break-outside-case", "case"), ("continue;", "continue-outside-loop", "loop"),
                                    ("break_loop;", "break_loop-outside-loop", "loop")):
                if need not in flags:
                    yield (fam + "-after-closed-" + kname, cname), wrap(pre + stmt)
    for kname, pre in closed.items():
        for stmt, fam in (("break;", "break-outside-case"), ("continue;", "continue-outside-loop"), ("break_loop;", "break_loop-outside-loop")):
            yield (fam + "-in-routine-after-" + kname, "top"), "def 0 { " + pre + "end; } def 1 { a(); " + stmt + " hold; }"
            yield (fam + "-in-routine-after-macro-with-" + kname, "top"), "macro m() { " + pre + "} def 0 { ~m(); " + stmt + " hold; }"
    # `not` on a bit test of an ordinary variable, however the variable is written and wherever the header stands
    for vname, var in (("var", "$ORD"), ("number", "3"), ("hex", "0x2F"), ("const", "SOME_CONST")):
        for pname, text in (("if", "if (not {v}[1]) {{ x(); }}"), ("elseif", "if (debug) {{ y(); }} elseif (not {v}[2]) {{ x(); }}"),
                            ("or-group", "if (edit || not {v}[4]) {{ x(); }}"), ("while", "while (not {v}[0]) {{ x(); }}"),
                            ("for", "for (i(); not {v}[5]; j();) {{ x(); }}"), ("not-not", "if not (not {v}[1]) {{ x(); }}")):
            yield ("not-on-ordinary-bit-" + pname + "-" + vname, "routine"), "def 0 { a(); " + text.format(v=var) + " b(); }"
            yield ("not-on-ordinary-bit-" + pname + "-" + vname, "macro"), "macro m() { " + text.format(v=var) + " } def 0 { ~m(); }"
    # the same in a macro that is never called
    yield ("jump-undefined-in-uncalled-macro", "top"), "macro m() { a(); jump @nowhere; } def 0 { b(); }"
    yield ("call-undefined-in-uncalled-macro", "top"), "macro m() { call @nowhere; a(); } macro n() { @nowhere; x(); } def 0 { ~n(); }"
    yield ("continue-outside-loop-in-uncalled-macro", "top"), "macro m() { continue; } def 0 { b(); }"
    yield ("break-outside-case-in-uncalled-macro", "top"), "macro m() { break; } def 0 { b(); }"
    yield ("unknown-macro-in-uncalled-macro", "top"), "macro m() { ~nope(); } def 0 { b(); }"
    yield ("recursive-macro-direct", "top"), "macro r() { ~r(); } def 0 { ~r(); }"
    yield ("recursive-macro-indirect", "top"), "macro a() { ~b(); } macro b() { ~a(); } def 0 { ~a(); }"
    yield ("recursive-macro-3", "top"), "macro a() { ~b(); } macro b() { ~c(); } macro c() { ~a(); } def 0 { x(); }"
    yield ("recursive-macro-unused", "top"), "macro r() { x(); ~r(); } def 0 { x(); }"
    yield ("also:macro-alias", "top"), "macro a() { alias previous; } def 0 { x(); }"
    yield ("also:for-bad-target", "top"), "def 0 for monster 3 { x(); }"


SSBS_MARK = "//?: is-ssb-script: true\n"
SSBS_BASES = [
    "def 0 { a(1, 'x', CONST, $V, 1.5, {english='e', german='g'}, Position<'m', 1, 2.5>); @l; Branch($V, 1, @l); Jump(@m); @m; End(); }",
    "coro NAME { a(); Return(); }\ndef 1 for actor 3 { b(-1); Hold(); }\ndef 2 for object OBJ { alias previous; }",
]


def nesting_cases():
    """Deep nesting: the outcome must stay within the documented ones at every depth."""
    for depth in (30, 121, 150, 400, 1200):
        yield ("if", depth), "def 0 { " + "if (debug) { " * depth + "a();" + " }" * depth + " end; }"
        yield ("forever", depth), "def 0 { " + "forever { " * depth + "a();" + " }" * depth + " }"
        yield ("switch", depth), "def 0 { " + "switch ($V) { case 1: " * depth + "a();" + " }" * depth + " end; }"
        yield ("parens", depth), "def 0 { a(" + "(" * depth + "1" + ")" * depth + "); }"
        yield ("macro-calls", depth), "".join(f"macro m{i}() {{ ~m{i + 1}(); }} " for i in range(min(depth, 300))) + \
            f"macro m{min(depth, 300)}() {{ x(); }} def 0 {{ ~m0(); }}"


def degenerate_cases():
    yield ("label-only-routine",), "def 0 { @l; }"
    yield ("label-only-routine-2",), "def 0 { a(); } def 1 { @l; @m; }"
    yield ("label-only-coro",), "coro X { @l; }"
    yield ("label-only-macro",), "macro m() { @l; } def 0 { ~m(); }"
    yield ("jump-to-label-only",), "def 0 { jump @l; @l; }"
    yield ("out-of-order-ids",), "def 1 { a(); } def 0 { b(); }"
    yield ("duplicate-ids",), "def 0 { a(); } def 0 { b(); }"
    yield ("gap-in-ids",), "def 0 { a(); } def 2 { b(); }"
    yield ("start-at-1",), "def 1 { a(); }"
    yield ("negative-id",), "def -1 { a(); }"
    yield ("huge-id",), "def 3 { a(); }"
    yield ("alias-first",), "def 0 { alias previous; }"
    yield ("mixed-coro-def",), "coro A { a(); } def 1 { b(); }"
    yield ("mixed-def-coro",), "def 0 { a(); } coro B { b(); }"
    yield ("hex-id",), "def 0x0 { a(); }"
    yield ("empty",), ""
    yield ("only-comment",), "// nothing\n"
    yield ("only-attr",), "//?:"
    yield ("only-attr-lines",), "//?: a: b\n//?: c: d"
    yield ("attr-without-colon",), "//?:x\ndef 0 { a(); }"
    yield ("attr-then-program",), "//?: foo: bar\ndef 0 { a(); }"
    yield ("ssbscript-marker-false",), "//?: is-ssb-script: false\ndef 0 { a(); }"
    yield ("ssbscript-marker-true-es-syntax",), "//?: is-ssb-script: true\ndef 0 { if (debug) { a(); } }"
    yield ("ssbscript-marker-true-undefined-label",), "//?: is-ssb-script: 1\ndef 0 { Jump(@nowhere); }"
    yield ("ssbscript-marker-true-ok",), "//?: is-ssb-script: 1\ndef 0 { a(1, @l); @l; End(); }"
    yield ("only-macro",), "macro m() { a(); }"
    yield ("macro-dup",), "macro m() { a(); } macro m() { b(); } def 0 { ~m(); }"
    yield ("macro-too-many-args",), "macro m($a) { x($a); } def 0 { ~m(1, 2, 3); }"
    yield ("macro-dup-params",), "macro m($a, $a) { x($a); } def 0 { ~m(1, 2); }"
    yield ("import-after-def",), "def 0 { a(); } import 'x.exps';"
    yield ("deep-nesting",), "def 0 { " + "if (debug) { " * 40 + "a();" + " }" * 40 + " }"
    yield ("long-routine",), "def 0 { " + "a(); " * 600 + "}"
    yield ("for-label-parts",), "def 0 { for (@a; debug; @b;) { x(); } }"
    yield ("for-jump-parts",), "def 0 { @l; for (jump @l; debug; return;) { x(); } }"
    yield ("for-with-not",), "def 0 { for (a(); not debug; b();) { x(); } }"
    yield ("duplicate-label",), "def 0 { @l; a(); @l; b(); jump @l; }"
    yield ("huge-int",), "def 0 { a(123456789012345678901234567890); }"
    yield ("weird-decimal",), "def 0 { a(1.2.3); }"
    yield ("position-mark-int-name",), "def 0 { a(Position<5, 1, 2>); }"
    yield ("op-named-like-branch",), "def 0 { if (BranchBit($A, 3)) { x(); } }"
    yield ("op-cond-not-branch",), "def 0 { if (some_op(1)) { x(); } }"
    yield ("op-cond-with-ctx",), "def 0 { if (BranchBit<actor 1>($A, 3)) { x(); } }"
    yield ("switch-op-with-ctx",), "def 0 { switch (ProcessSpecial<actor 1>(1, 2, 3)) { case 1: x(); } }"
    yield ("case-menu-in-msw",), "def 0 { message_SwitchTalk ($S) { case menu('x'): 'a' } }"
    yield ("case-op-in-msw",), "def 0 { message_SwitchTalk ($S) { case > 3: 'a' } }"


# ------------------------------------------------------------------ import digraphs
def import_cases():
    names = ["main.exps", "a.exps", "b.exps"]
    for n in (1, 2, 3):
        pairs = [(i, j) for i in range(n) for j in range(n)]
        for bits in range(1 << len(pairs)):
            edges = tuple(pairs[k] for k in range(len(pairs)) if bits >> k & 1)
            yield ("imports", n, edges, False, False), (n, edges, False, False)
    # missing files and routines in imported files on a few shapes
    for edges in [((0, 1),), ((0, 1), (1, 2)), ((0, 1), (0, 2))]:
        yield ("imports", 3, edges, True, False), (3, edges, True, False)
        yield ("imports", 3, edges, False, True), (3, edges, False, True)
        yield ("imports", 3, edges, False, "ssbs"), (3, edges, False, "ssbs")


def run_import_case(cid, spec):
    n, edges, missing, routines_in_import = spec
    root = os.path.join(C05.workdir(), "imp")
    shutil.rmtree(root, ignore_errors=True)
    os.makedirs(root)
    names = ["main.exps", "a.exps", "b.exps"][:n]
    texts = {}
    for i, nm in enumerate(names):
        imps = "".join(f'import "./{names[j]}";\n' for a, j in edges if a == i)
        body = f"macro m{i}() {{ op{i}(); }}\n"
        if i == 0:
            body += "def 0 { ~m0(); end; }\n"
        elif routines_in_import and i == n - 1:
            body += "def 0 { stray(); }\n"
        texts[nm] = imps + body
        if routines_in_import == "ssbs" and i == n - 1:
            texts[nm] = SSBS_MARK + "def 0 { stray(); }\n"   # an SsbScript file (it can only hold routines)
    for i, nm in enumerate(names):
        if missing and i == n - 1:
            continue
        with open(os.path.join(root, nm), "w") as f:
            f.write(texts[nm])
    # reachable cycle?
    reach = {0}
    stack = [0]
    while stack:
        u = stack.pop()
        for a, b in edges:
            if a == u and b not in reach:
                reach.add(b)
                stack.append(b)
    def cyclic_from(u, path):
        for a, b in edges:
            if a == u:
                if b in path or cyclic_from(b, path | {b}):
                    return True
        return False
    has_cycle = cyclic_from(0, {0})
    reaches_last = (n - 1) in reach and n > 1
    must_reject = has_cycle or (missing and reaches_last) or (routines_in_import and reaches_last)
    oc, v = judge(texts["main.exps"], must_reject=must_reject, tag=f"imports edges={edges} missing={missing} routines={routines_in_import}",
                  file_name=os.path.join(root, "main.exps"))
    if v is None and not must_reject and oc != "ok":
        v = {"kind": "valid-import-graph-rejected", "detail": {"edges": edges, "outcome": oc, "files": texts}}
    if v is None and must_reject and oc not in ("SsbCompilerError",):
        v = {"kind": "wrong-exception-for-import-error", "detail": {"edges": edges, "outcome": oc, "files": texts}}
    res = {"outcome": oc, "nt": cid if edges else None}
    if v:
        v["detail"]["files"] = texts
        res["viol"] = v
    elif hash(repr(cid)) % 100 == 0:
        res["sample"] = {"edges": edges, "outcome": oc}
    return res


# ------------------------------------------------------------------ corruptions
def corruptions(tokens, alphabet):
    n = len(tokens)
    for i in range(n):
        yield ("del", i), tokens[:i] + tokens[i + 1:]
        yield ("dup", i), tokens[:i + 1] + tokens[i:]
        if i + 1 < n:
            yield ("swap", i), tokens[:i] + [tokens[i + 1], tokens[i]] + tokens[i + 2:]
        for a in alphabet:
            if a != tokens[i]:
                yield ("repl", i, a), tokens[:i] + [a] + tokens[i + 1:]
    for i in range(n + 1):
        for a in alphabet:
            yield ("ins", i, a), tokens[:i] + [a] + tokens[i:]


CORRUPT_ALPHABET = ["{", "}", "(", ")", ";", ":", ",", "@", "x", "0", "-1", "1.5", "'s'", "$v", "~m", "if", "else", "case", "default",
                    "break", "continue", "jump", "return", "def", "macro", "not", "||", "==", "=", "<", ">", "[", "]", "value",
                    "with", "actor", "forever", "alias", "previous", "Position", "import"]


def base_programs(seed, tier):
    progs = list(C16.corner_programs())
    forms = list(gen_forms.form_programs())
    step = 40 if tier == "quick" else 8
    progs += forms[seed % step::step]
    gp = list(G.programs(G.FULL, 2, 3, seed, ("none", "coro")))
    step2 = 120 if tier == "quick" else 25
    progs += gp[seed % step2::step2]
    return progs


def run_case(cid, case):
    tag = cid[0]
    viols = []
    outcomes = {}
    count = 0

    def one(text, must=False, what=None):
        nonlocal count
        count += 1
        oc, v = judge(text, must_reject=must, tag=what)
        outcomes[oc.split("@")[0]] = outcomes.get(oc.split("@")[0], 0) + 1
        if v and len(viols) < 6:
            viols.append(v)
    if tag == "imports":
        return run_import_case(cid, case)
    if tag == "tok":
        prefix, k = case
        for rest in itertools.product(TOKENS, repeat=k - len(prefix)):
            one(" ".join(prefix + rest))
    elif tag == "chars":
        prefix, k = case
        for rest in itertools.product(CHARS, repeat=k - len(prefix)):
            one("".join(prefix + rest))
    elif tag == "corrupt":
        text = A.render(case)
        toks = GL.tokenize(text)
        if outcome_of(text)[0] != "ok":
            return {"outcome": "base-not-ok"}
        for ctag, toks2 in corruptions(toks, CORRUPT_ALPHABET):
            one(" ".join(toks2), what=repr(ctag))
    elif tag == "must":
        # families marked 'also:' are not in the property's list of programs that must be rejected:
        # for them only the exception types are checked
        one(case, must=not cid[1].startswith("also:"), what=repr(cid[1:]))
    elif tag == "degenerate":
        one(case, what=repr(cid[1:]))
    elif tag == "nesting":
        one(case, what=repr(cid[1:]))
    elif tag == "corrupt-ssbs":
        toks = GL.tokenize(case)
        if outcome_of(SSBS_MARK + case)[0] != "ok":
            return {"outcome": "base-not-ok"}
        for ctag, toks2 in corruptions(toks, CORRUPT_ALPHABET):
            one(SSBS_MARK + " ".join(toks2), what=repr(ctag))
    oc = "violation" if viols else "ok"
    res = {"outcome": oc, "evals": count, "nt_count": count if tag in ("tok", "chars", "corrupt", "corrupt-ssbs") else 0,
           "nt": cid if tag in ("must", "degenerate", "nesting") else None, "extra": {f"outcome_{k}": v for k, v in outcomes.items()}}
    if viols:
        res["viol"] = viols
    elif tag in ("must",) and hash(repr(cid)) % 25 == 0:
        res["sample"] = {"family": cid[1], "context": cid[2], "text": case, "outcome": list(outcomes)}
    return res


def run(tier, seed):
    t0 = time.time()
    impl.warm()
    C05._BASE = tempfile.mkdtemp(prefix="vf_c10_")
    quick = tier == "quick"
    K = 3 if quick else 4

    def make_cases():
        for (fam, ctx), text in must_reject_cases():
            yield ("must", fam, ctx), text
        for cid, text in degenerate_cases():
            yield ("degenerate",) + cid, text
        yield from import_cases()
        for k in range(1, K + 1):
            if k <= 2:
                yield ("tok", k, ()), ((), k)
            else:
                for prefix in itertools.product(TOKENS, repeat=2):
                    yield ("tok", k, prefix), (prefix, k)
        for k in range(1, 5):
            if k <= 2:
                yield ("chars", k, ()), ((), k)
            else:
                for prefix in itertools.product(CHARS, repeat=1 if k == 3 else 2):
                    yield ("chars", k, prefix), (prefix, k)
        for cid, p in base_programs(seed, tier):
            yield ("corrupt",) + tuple(cid), p
        for i, t in enumerate(SSBS_BASES):
            yield ("corrupt-ssbs", i), t
        for cid, t in nesting_cases():
            yield ("nesting",) + cid, t
    try:
        total = runner.explore(make_cases, run_case, timeout=300.0)
    finally:
        shutil.rmtree(C05._BASE, ignore_errors=True)
    return runner.finish(
        ID, LEVEL, tier, seed, total, t0,
        rule=f"(1) all strings of <= {K} tokens over a {len(TOKENS)}-token alphabet (keywords, braces, labels, meta-attribute fragments, "
             "quotes, comment openers, line breaks) and all strings of <= 4 characters over 16 characters; (2) every single "
             "token-level corruption (delete, duplicate, swap, replace / insert each of 41 tokens at every position) of a rotating "
             "slice of valid programs, and of two SsbScript texts behind the is-ssb-script marker; nesting depths 30 .. 1200 of if / forever / switch / parentheses / macro calls; (3) 24 statically meaningless families in each of 15 contexts (routine, if, else, elseif, "
             "case, default, forever, while, for, loop in case, case in loop, macro, second routine, coroutine), recursive "
             "macros; (4) 46 degenerate programs (label-only routines, routine ids out of order / duplicate / with gaps, meta "
             "attribute corner cases, ...); (5) all 2^(n*n) import digraphs on n <= 3 files incl. self imports and cycles, missing "
             "files, routines in an imported file; oracle: outcome in {success, ParseError, SsbCompilerError, ValueError}; "
             "must-reject members raise and leave routine_ops / routine_infos unset; valid import graphs compile; evaluations "
             "counts texts; non-trivial = every text of (1),(2) and every case of (3)-(5)",
        assumptions=["the documented exception types are those of the compile() docstring"],
        bounds={"max_tokens": K})
