"""C01 — compiled bytecode behaves exactly as the source program says.

Path space (P) over input shapes (I): for every program of G-prog the full synchronous product
Ref(ast) x Machine(compile(text)) is explored for every routine (all paths, all outcomes).
"""
from __future__ import annotations

import time

from .. import esast as A
from .. import gen_prog as G
from .. import gen_forms
from .. import impl, lts, refsem, runner

ID = "C01"
LEVEL = "model_checking"


def check_program(cid, prog, text=None):
    """Shared with C03/C08: returns (result dict, context) ; context has compiled, ref, relation."""
    ctx = {}
    if text is None:
        text = A.render(prog)
    ctx["text"] = text
    try:
        ref = refsem.ref_program(prog, impl.PERF)
    except refsem.RefError as e:
        return {"outcome": "generator-invalid", "harness_error": f"generator produced an invalid program: {e}\n{text}"}, ctx
    ctx["ref"] = ref
    for e in ref.entries:
        if lts.has_silent_cycle(ref.lts, e):
            return {"outcome": "excluded:op-free-cycle"}, ctx
    try:
        comp = impl.compile_es(text)
    except impl.documented_compile_errors() as e:
        return {"outcome": f"rejected:{type(e).__name__}", "extra": {"rejected": 1}}, ctx
    except RecursionError:
        return {"outcome": "rejected:RecursionError", "extra": {"rejected": 1}}, ctx
    except Exception as e:
        # undocumented exception type: C10's business, not C01's (C01 is conditional on acceptance)
        return {"outcome": f"rejected-undocumented:{type(e).__name__}", "extra": {"rejected": 1}}, ctx
    ctx["comp"] = comp
    viols = []
    states = transitions = 0
    tests_total = 0
    relation = set()
    try:
        m, entries = lts.machine(comp.routine_ops, jump_index_last=True)
    except lts.MalformedMachine as e:
        return {"outcome": "violation", "viol": {"kind": "malformed-output", "detail": {"error": str(e), "source": text}}}, ctx
    ctx["machine"] = (m, entries)
    if len(entries) != len(ref.entries):
        viols.append({"kind": "routine-count", "detail": {"expected": len(ref.entries), "got": len(entries), "source": text}})
    else:
        chains = ctx.setdefault("tau_chains", [])
        for r, (re_, me) in enumerate(zip(ref.entries, entries)):
            ok, st, tr, rel, mm = lts.product(ref.lts, re_, m, me, tau_chains=chains)
            states += st
            transitions += tr
            relation |= rel
            if not ok:
                viols.append({"kind": "behaviour-diff", "detail": {
                    "routine": r, "source": text, "mismatch": mm.as_dict(),
                    "compiled": dump_ops(comp.routine_ops)}})
            tests_total += lts.reachable_stats(ref.lts, re_)[1]
        table = impl.routine_table(comp.routine_infos, comp.named_coroutines)
        if table != ref.table:
            viols.append({"kind": "routine-table", "detail": {"expected": ref.table, "got": table, "source": text}})
    ctx["relation"] = relation
    res = {"outcome": "violation" if viols else "ok", "states": states, "transitions": transitions,
           "nt": cid if tests_total >= 1 else None}
    if viols:
        res["viol"] = viols
    return res, ctx


def dump_ops(routine_ops):
    return [[f"{op.offset}: {op.op_code.name} {list(op.params)!r}" for op in r] for r in routine_ops]


def run_case(cid, prog):
    res, ctx = check_program(cid, prog)
    if res.get("outcome") == "ok" and hash(repr(cid)) % 5000 == 0:
        res["sample"] = {"source": ctx["text"], "product_states": res["states"]}
    return res


def plan(tier, seed):
    if tier == "quick":
        return [
            ("forms", None),
            (G.FULL, 0, 2, 3, G.SECOND_ROUTINES),
            (G.FULL, 3, 3, 3, ("none",)),
            (G.TINY, 4, 4, 3, ("none",)),
        ]
    return [
        ("forms", None),
        (G.FULL, 0, 3, 3, G.SECOND_ROUTINES),
        (G.REDUCED, 4, 4, 3, ("none",)),
    ]


def make_cases_for(tier, seed):
    pl = plan(tier, seed)

    def make_cases():
        for item in pl:
            if item[0] == "forms":
                yield from gen_forms.form_programs()
                yield from G.chain_programs(seed, big=tier != "quick")
                yield from G.length_programs(seed, compatible_cases=False, max_len=6)
                yield from G.switch_programs(seed, compatible_cases=False, big=tier != "quick")
                yield from G.cross_programs(seed, compatible_cases=False)
            else:
                alpha, lo, hi, depth, seconds = item
                yield from G.programs(alpha, hi, depth, seed, seconds, min_n=lo)
    return make_cases, pl


def run(tier, seed):
    t0 = time.time()
    impl.warm()
    make_cases, pl = make_cases_for(tier, seed)
    total = runner.explore(make_cases, run_case, timeout=30.0)
    bounds = {"plan": [("G-forms + G-chains + G-lengths + G-switch + G-cross",) if p[0] == "forms" else
                       {"alphabet": p[0].name, "nodes": [p[1], p[2]], "depth": p[3], "second_routines": list(p[4])}
                       for p in pl]}
    return runner.finish(
        ID, LEVEL, tier, seed, total, t0,
        rule="every program of G-prog (all statement-list skeletons with the stated node counts / nesting depth over the "
             "stated alphabet, x second-routine variants; forms rotated by seed) plus G-forms, G-chains (all if / elseif / else chains of 2-3 branches x block kinds x not) and G-lengths (switch / if with branch bodies of 0..2 against 0..6 ops in or next to a loop) and G-switch (all switches of 3-4 cases x 7 body kinds x default placement) and G-cross (labels reached only from another routine x 4 jump kinds x 5 prefixes x 9 continuations); each is compiled by the real "
             "compiler and the complete product Ref(ast) x Machine(compiled ops) is explored per routine; "
             "states/transitions are summed over those products; non-trivial = program with at least one reachable test "
             "(so at least two distinct traces), distinct by canonical skeleton",
        assumptions=[
            "the reference semantics (vf/refsem.py) is a faithful reading of docs/language_spec.rst",
            "outcomes of different tests are independent (over-approximates the game; stricter on both sides equally)",
            "opcode names outside the property's flow-ending list (JumpCommon, Destroy) are not in the alphabet",
            "programs the compiler rejects are counted, not reported (C01 is conditional on acceptance)",
        ],
        bounds=bounds, exhaustive=True)
