"""C04 — every parameter value survives being printed and parsed again; literal spellings mean what the spec says.

(I) Part A: values x printing contexts through both decompilers, compiled back, compared by value.
    Part B: literal spellings compiled and compared with an independent evaluation of the specification's rules.
"""
from __future__ import annotations

import itertools
import time
from fractions import Fraction

from .. import decomp, impl, lts, reader, runner

ID = "C04"
LEVEL = "exploration"

STR_ALPHABET = ["a", " ", "\n", "'", '"', "\\", "n"]
OTHER_SPACE = ["\t", "\u00a0", "\u3000", "\r", "\x0b", "\x0c", "\x1c", "\x85", "\u2028", "\u2029", "\ufeff", "\u200b"]
CONTEXTS = ["arg1", "arg2", "depth2", "depth3", "menu", "casetext", "lang1", "lang2", "ssbs", "ssbs_lang"]


HEADER_CONTEXTS = ["menu2", "case", "casevalue", "branch", "assign"]


def strings_upto(L, extra_atoms=()):
    yield ""
    alphabet = STR_ALPHABET + list(extra_atoms)
    for n in range(1, L + 1):
        for combo in itertools.product(alphabet, repeat=n):
            yield "".join(combo)


def build_input(ctx, param):
    """One routine set that holds `param` in the given printing context. Returns (rops, infos, coros, locate)
    where locate(routine_ops) -> the parameter of the recompiled ops that corresponds to the value."""
    from explorerscript.ssb_converting.ssb_data_types import (SsbOperation, SsbOpCode, SsbRoutineInfo, SsbRoutineType,
                                                             SsbOpParamConstant)

    def O(off, name, params):
        return SsbOperation(off, SsbOpCode(-1, name), params)

    def find(name, idx):
        def locate(rops):
            for r in rops:
                for op in r:
                    if op.op_code.name == name:
                        return op.params[idx]
            raise LookupError(name)
        return locate
    infos = [SsbRoutineInfo(SsbRoutineType.GENERIC, 0)]
    if ctx in ("arg1", "ssbs", "lang1", "lang2", "ssbs_lang"):
        ops = [O(0, "holder", [param]), O(2, "End", [])]
        return [ops], infos, [None], find("holder", 0)
    if ctx == "arg2":
        ops = [O(0, "holder", [7, param, SsbOpParamConstant("AFTER")]), O(4, "End", [])]
        return [ops], infos, [None], find("holder", 1)
    if ctx == "depth2":
        ops = [O(0, "BranchDebug", [1, 6]), O(3, "Jump", [9]), O(6, "holder", [param]), O(9, "End", [])]
        return [ops], infos, [None], find("holder", 0)
    if ctx == "depth3":
        ops = [O(0, "BranchDebug", [1, 6]), O(3, "Jump", [18]), O(6, "BranchEdit", [1, 12]), O(9, "Jump", [15]),
               O(12, "holder", [param]), O(15, "after_inner", []), O(18, "End", [])]
        return [ops], infos, [None], find("holder", 0)
    if ctx == "menu":
        ops = [O(0, "message_SwitchMenu", [0, 1]), O(3, "CaseMenu", [param, 9]), O(6, "Jump", [12]), O(9, "in_case", []),
               O(12, "End", [])]
        return [ops], infos, [None], find("CaseMenu", 0)
    if ctx == "menu2":
        ops = [O(0, "message_SwitchMenu2", [0, 1]), O(3, "CaseMenu2", [param, 9]), O(6, "Jump", [12]), O(9, "in_case", []),
               O(12, "End", [])]
        return [ops], infos, [None], find("CaseMenu2", 0)
    if ctx == "case":
        ops = [O(0, "Switch", [SsbOpParamConstant("$SW")]), O(2, "Case", [param, 8]), O(5, "Jump", [10]), O(8, "in_case", []),
               O(10, "End", [])]
        return [ops], infos, [None], find("Case", 0)
    if ctx == "casevalue":
        ops = [O(0, "SwitchRandom", [param]), O(2, "CaseValue", [3, param, 9]), O(6, "Jump", [11]), O(9, "in_case", []),
               O(11, "End", [])]

        def locate2(rops):
            a = [op for r in rops for op in r if op.op_code.name == "SwitchRandom"][0].params[0]
            b = [op for r in rops for op in r if op.op_code.name == "CaseValue"][0].params[1]
            if lts.canon_param(a) != lts.canon_param(b):
                raise LookupError(f"switch header and case header differ: {a!r} {b!r}")
            return a
        return [ops], infos, [None], locate2
    if ctx == "branch":
        ops = [O(0, "Branch", [SsbOpParamConstant("$V"), param, 6]), O(4, "Jump", [8]), O(6, "in_if", []), O(8, "End", [])]
        return [ops], infos, [None], find("Branch", 1)
    if ctx == "assign":
        ops = [O(0, "flag_Set", [SsbOpParamConstant("$V"), param]), O(3, "End", [])]
        return [ops], infos, [None], find("flag_Set", 1)
    if ctx == "casetext":
        ops = [O(0, "message_SwitchTalk", [SsbOpParamConstant("$K")]), O(3, "CaseText", [1, param]), O(6, "DefaultText", [param]),
               O(8, "End", [])]

        def locate(rops):
            ct = [op for r in rops for op in r if op.op_code.name == "CaseText"][0].params[1]
            dt = [op for r in rops for op in r if op.op_code.name == "DefaultText"][0].params[0]
            if lts.canon_param(ct) != lts.canon_param(dt):
                raise LookupError(f"CaseText and DefaultText differ: {ct!r} {dt!r}")
            return ct
        return [ops], infos, [None], locate
    raise ValueError(ctx)


def make_param(kind, value, ctx):
    from explorerscript.ssb_converting.ssb_data_types import (SsbOpParamConstant, SsbOpParamConstString, SsbOpParamLanguageString,
                                                             SsbOpParamFixedPoint, SsbOpParamPositionMarker)
    if kind == "str":
        if ctx in ("lang1", "ssbs_lang"):
            return SsbOpParamLanguageString({"english": value})
        if ctx == "lang2":
            return SsbOpParamLanguageString({"english": "first", "german": value})
        return SsbOpParamConstString(value)
    if kind == "int":
        return value
    if kind == "fixed":
        return SsbOpParamFixedPoint.from_float(value / 256)
    if kind == "const":
        return SsbOpParamConstant(value)
    if kind == "pos":
        return SsbOpParamPositionMarker(*value)
    raise ValueError(kind)


def roundtrip(kind, value, ctx):
    """-> None if the value survives, else a violation dict."""
    param = make_param(kind, value, ctx)
    want = lts.canon_param(make_param(kind, value, ctx))
    rops, infos, coros, locate = build_input(ctx if kind == "str" or ctx in CONTEXTS or ctx in HEADER_CONTEXTS else "arg1", param)
    detail = {"kind": kind, "value": value if kind != "pos" else list(value), "context": ctx}
    try:
        if ctx.startswith("ssbs"):
            text, _ = impl.decompile_ssbs(rops, infos, coros)
            comp = impl.compile_ssbs(text)
        else:
            text, _ = impl.decompile_es(rops, infos, coros)
            comp = impl.compile_es(text)
    except Exception as e:
        detail["error"] = f"{type(e).__name__}: {e}"[:200]
        detail["text"] = locals().get("text")
        return {"kind": f"print-parse-exception:{type(e).__name__}", "detail": detail}
    try:
        got = lts.canon_param(locate(comp.routine_ops))
    except LookupError as e:
        detail["text"] = text
        detail["error"] = str(e)[:200]
        return {"kind": "print-parse-lost-op", "detail": detail}
    if got != want:
        if kind == "fixed" and got[0] == "f" and Fraction(got[1]) == Fraction(want[1]):
            return None
        detail["text"] = text
        detail["got"] = list(got)
        detail["want"] = list(want)
        return {"kind": "print-parse-value-differs", "detail": detail}
    return None


# ------------------------------------------------------------------ part B: literal spellings
def single_line_bodies(L):
    alphabet = ["a", " ", "'", '"', "\\", "n"]
    for n in range(0, L + 1):
        for combo in itertools.product(alphabet, repeat=n):
            yield "".join(combo)


def defined_single_line(body, q):
    """Literal q+body+q is lexically one string and only uses escapes the documentation defines (\\n and escaped quotes)."""
    i = 0
    while i < len(body):
        c = body[i]
        if c == "\\":
            if i + 1 >= len(body) or body[i + 1] not in "n'\"":
                return False
            i += 2
            continue
        if c == q:
            return False
        i += 1
    return True


def multi_line_bodies(L):
    alphabet = ["a", " ", "\n"]
    for n in range(0, L + 1):
        for combo in itertools.product(alphabet, repeat=n):
            yield "".join(combo)


INT_SPELLINGS = ["0", "00", "000", "-0", "7", "-7", "12", "-12", "0x0", "0x12", "0X1f", "0xFF", "-0x10", "0o7", "0O17", "-0o10",
                 "0b0", "0b110", "0B101", "-0b11", "32767", "-32768", "65535", "123456789"]
DEC_SPELLINGS = ["1.5", "01.5", "001.50", "1.50", ".5", "-.5", "-0.5", "-00.50", "0.0", "-0.0", "00.00", ".0", "-.0", "12.25",
                 "-12.25", "0.00390625", "63.99609375", "-64.0", "3.14159", "000.125", "-000.125", "7.0", "7.000", "10.01", "-.125"]


# coordinate spellings of position marks: (spelling, (tile, half-tile flag)) ; None = no value, has to be rejected
POS_COORD_SPELLINGS = [
    ("3", (3, 0)), ("0", (0, 0)), ("-2", (-2, 0)), ("0x10", (16, 0)), ("0b11", (3, 0)), ("3.0", (3, 0)), ("3.00", (3, 0)), ("03.0", (3, 0)),
    ("3.5", (3, 2)), ("3.50", (3, 2)), ("03.500", (3, 2)), (".5", (0, 2)), ("0.5", (0, 2)), ("-1.5", (-1, 2)), ("-1.0", (-1, 0)), (".0", (0, 0)),
    ("1.05", None), ("1.005", None), (".05", None), ("-3.0500", None), ("1.25", None), ("1.55", None), ("2.6", None), ("1.4", None), ("1.51", None),
]


def pos_coord_case(lit, want):
    detail = {"kind": "pos-coord", "literal": lit}
    for which, text in (("x", f"def 0 {{ holder(Position<'m', {lit}, 7>); }}"), ("y", f"def 0 {{ holder(Position<'m', 7, {lit}>); }}")):
        for comp_name, compiler in (("explorerscript", impl.compile_es), ("ssbscript", impl.compile_ssbs)):
            try:
                p = compiler(text).routine_ops[0][0].params[0]
                got = (p.x_relative, p.x_offset) if which == "x" else (p.y_relative, p.y_offset)
            except Exception as e:
                got = f"{type(e).__name__}"
            if want is None:
                if not isinstance(got, str):
                    return {"kind": "meaningless-coordinate-accepted", "detail": {**detail, "axis": which, "compiler": comp_name, "got": list(got)}}
                if got not in ("SsbCompilerError", "ParseError", "ValueError"):
                    return {"kind": "literal-rejected:pos-coord", "detail": {**detail, "axis": which, "compiler": comp_name, "error": got}}
            elif got != want:
                return {"kind": "literal-value-differs:pos-coord", "detail": {**detail, "axis": which, "compiler": comp_name,
                                                                             "got": got if isinstance(got, str) else list(got), "want": list(want)}}
    return None


def spelling_case(kind, lit):
    """Compile `holder(<lit>);` and compare with the independent evaluation."""
    text = f"def 0 {{\n    holder({lit});\n}}\n"
    detail = {"kind": kind, "literal": lit}
    try:
        comp = impl.compile_es(text)
        got = lts.canon_param(comp.routine_ops[0][0].params[0])
    except Exception as e:
        detail["error"] = f"{type(e).__name__}: {e}"[:200]
        return {"kind": f"literal-rejected:{kind}", "detail": detail}
    if kind == "int":
        want = ("i", reader.eval_int(lit))
        ok = got == want
    elif kind == "dec":
        want = ("f", reader.eval_decimal(lit))
        ok = got[0] == "f" and Fraction(got[1]) == Fraction(lit) and got[1].startswith("-") == lit.startswith("-")
    elif kind == "sl":
        want = ("s", reader.eval_single_line(lit))
        ok = got == want
    else:
        want = ("s", reader.eval_multi_line(lit))
        ok = got == want
    if not ok:
        detail["got"] = list(got)
        detail["want"] = list(want)
        return {"kind": f"literal-value-differs:{kind}", "detail": detail}
    # the same literal through the SsbScript compiler must mean the same
    try:
        comp2 = impl.compile_ssbs(text)
        got2 = lts.canon_param(comp2.routine_ops[0][0].params[0])
        if got2 != got:
            detail["explorerscript"] = list(got)
            detail["ssbscript"] = list(got2)
            return {"kind": f"literal-differs-between-compilers:{kind}", "detail": detail}
    except Exception as e:
        detail["error"] = f"ssbscript {type(e).__name__}: {e}"[:200]
        return {"kind": f"literal-rejected-ssbscript:{kind}", "detail": detail}
    return None


def classify(v):
    """Root cause grouping for known_findings.json (development time)."""
    import re
    d = v["detail"]
    if v["kind"].startswith("literal-value-differs") and d.get("kind") == "ml" and "\t" in d.get("literal", ""):
        return "C04-tab-indentation"
    if v["kind"].startswith("print-parse") and d.get("kind") == "pos":
        if re.search(r"\\([n'\"]|$)", d["value"][0]) is not None:
            return "C04-mark-name-backslash"
    if v["kind"].startswith("print-parse") and d.get("kind") == "str":
        s = d["value"]
        if "\r" in s:
            return "C04-carriage-return"
        unsafe_single = re.search(r"\\([n'\"]|$)|\f", s) is not None
        lines = s.split("\n")
        unsafe_multi = all(ln.startswith(" ") for ln in lines) or ("'''" in s and '"""' in s)
        if unsafe_single and unsafe_multi:
            return "C04-backslash-and-indent"
    return None


# ------------------------------------------------------------------ driver
def run_case(cid, case):
    tag = cid[0]
    if tag == "rt":
        kind, value = case
        ctxs = CONTEXTS if kind == "str" else (["arg1", "arg2", "depth2", "ssbs"] if kind != "pos" else ["arg1", "arg2", "depth3", "ssbs"])
        if kind in ("int", "const"):
            ctxs = ctxs + HEADER_CONTEXTS
        viols = []
        for ctx in ctxs:
            v = roundtrip(kind, value, ctx)
            if v:
                viols.append(v)
        nt = cid if (kind != "str" or any(c in value for c in "\n'\"\\ ")) else None
        res = {"outcome": "violation" if viols else "ok", "nt": nt, "extra": {"print_parse_runs": len(ctxs)}}
        if viols:
            res["viol"] = viols
        elif hash(repr(cid)) % 1500 == 0:
            res["sample"] = {"value": repr(value), "kind": kind, "contexts": ctxs}
        return res
    if tag == "target":
        return routine_target_case(cid, case)
    kind, lit = case
    v = pos_coord_case(*lit) if kind == "pos-coord" else spelling_case(kind, lit)
    res = {"outcome": "violation" if v else "ok", "nt": cid}
    if v:
        res["viol"] = v
    elif hash(repr(cid)) % 1500 == 0:
        res["sample"] = {"literal": lit, "kind": kind}
    return res


def routine_target_case(cid, case):
    from explorerscript.ssb_converting.ssb_data_types import SsbOperation, SsbOpCode, SsbRoutineInfo, SsbRoutineType
    rtype, linked, name = case
    infos = [SsbRoutineInfo(getattr(SsbRoutineType, rtype), linked, name)]
    rops = [[SsbOperation(0, SsbOpCode(-1, "End"), [])]]
    viols = []
    for which in ("es", "ssbs"):
        try:
            if which == "es":
                text, _ = impl.decompile_es(rops, infos, [None])
                comp = impl.compile_es(text)
            else:
                text, _ = impl.decompile_ssbs(rops, infos, [None])
                comp = impl.compile_ssbs(text)
            got = impl.routine_table(comp.routine_infos, comp.named_coroutines)
            want = impl.routine_table(infos, [None])
            if got != want:
                viols.append({"kind": "routine-target-differs", "detail": {"decompiler": which, "text": text, "got": got, "want": want}})
        except Exception as e:
            viols.append({"kind": f"routine-target-exception:{type(e).__name__}", "detail": {"decompiler": which, "case": repr(case),
                                                                                          "error": str(e)[:200]}})
    res = {"outcome": "violation" if viols else "ok", "nt": cid}
    if viols:
        res["viol"] = viols
    return res


INTS_QUICK = [0, 1, -1, 7, 8, 9, 10, 15, 16, 17, 99, 100, 255, 256, 1000, 32767, -32768, -255, 65535, 12345]
POS_NAMES = ["m", "two words", "", "UPPER_1", "it's", 'say "x"', "two\nlines", "back\\slash", "a\\n", "q\\'", 'd\\"', "end\\", "tab\tname"]


def run(tier, seed):
    t0 = time.time()
    impl.warm()
    quick = tier == "quick"
    L = 4 if quick else 5

    def make_cases():
        for s in strings_upto(L):
            yield ("rt", "str", s), ("str", s)
        # both triple-quote sequences as atoms (shorter bound)
        for s in strings_upto(3 if quick else 4, extra_atoms=("'''", '"""')):
            if "'''" in s or '"""' in s:
                yield ("rt", "str", s), ("str", s)
        # other white space and line separator characters (each with a, blank and newline)
        for w in OTHER_SPACE:
            for n in range(1, (4 if quick else 5) + 1):
                for combo in itertools.product(("a", "\n", " ", w), repeat=n):
                    if w in combo:
                        s = "".join(combo)
                        yield ("rt", "str", s), ("str", s)
        for i in (INTS_QUICK if quick else range(-32768, 32768, 1 if not quick else 97)):
            yield ("rt", "int", i), ("int", i)
        for k in range(-16384, 16384, 1 if not quick else 7):
            yield ("rt", "fixed", k), ("fixed", k)
        for name in ["CONST", "$VAR", "lower_case", "_x", "A1", "$a_b", "Mixed_Case9"]:
            yield ("rt", "const", name), ("const", name)
        for name in POS_NAMES:
            for xo, yo in itertools.product((0, 2), repeat=2):
                for x, y in ((0, 0), (5, 255), (12, 3), (-1, 7), (7, -1), (-1, -1), (-128, 32767)):
                    yield ("rt", "pos", name, xo, yo, x, y), ("pos", (name, xo, yo, x, y))
        for rtype in ("ACTOR", "OBJECT", "PERFORMER"):
            for linked, name in ((0, None), (5, None), (386, None), (-1, "ACTOR_NAME"), (-1, "$VARLIKE")):
                yield ("target", rtype, linked, name), (rtype, linked, name)
        yield ("target", "GENERIC", 0, None), ("GENERIC", 0, None)
        # part B
        for lit in INT_SPELLINGS:
            yield ("lit", "int", lit), ("int", lit)
        for lit in DEC_SPELLINGS:
            yield ("lit", "dec", lit), ("dec", lit)
        for lit, want in POS_COORD_SPELLINGS:
            yield ("lit", "pos-coord", lit), ("pos-coord", (lit, want))
        for body in single_line_bodies(L):
            for q in ("'", '"'):
                if defined_single_line(body, q):
                    yield ("lit", "sl", q, body), ("sl", q + body + q)
        for body in multi_line_bodies(L + 3):
            for q in ("'''", '"""'):
                if q[0] * 3 not in body and not body.endswith(q[0]):
                    yield ("lit", "ml", q, body), ("ml", q + body + q)
        # the same with tabs as indentation (the specification speaks of whitespace characters)
        for n in range(1, L + 2):
            for combo in itertools.product(("a", "\t", "\n"), repeat=n):
                body = "".join(combo)
                if "\t" in body and "\n" in body:
                    yield ("lit", "ml", "tq", body), ("ml", "'''" + body + "'''")
    total = runner.explore(make_cases, run_case, timeout=60.0)
    return runner.finish(
        ID, LEVEL, tier, seed, total, t0,
        rule=f"part A (print -> parse): all strings of length <= {L} over {{a, blank, newline, ', \", backslash, n}} (+ both "
             f"triple-quote sequences as atoms up to {3 if quick else 4} atoms) in 10 printing contexts (argument first / "
             "second, if-depth 2 and 3, case menu() header, CaseText+DefaultText, language string with 1 and 2 languages, "
             "SsbScript decompiler plain and language string); integers and constants additionally as menu2() / case / operator-case / "
             "switch header, if condition and assignment operand; integers (" + ("20 boundary values" if quick else "all 65536 16-bit values") +
             "), fixed point k/256 (" + ("every 7th of" if quick else "all") + " 32768 values), constants, position marks (names x "
             "half-tile offsets x coordinates), routine targets; part B (spelling -> value): integer spellings in 4 bases, 25 decimal "
             f"spellings, 25 position-mark coordinate spellings (16 with a value, 9 that have none and must be rejected), all single-line literals with bodies of length <= {L} using only documented escapes in both quote "
             f"styles, all multi-line literals with bodies of length <= {L + 3} over {{a, blank, newline}} in both triple-quote "
             "styles against the documented dedent algorithm, and agreement of both compilers; an evaluation is one value "
             "(all its contexts) or one literal; non-trivial = value with a special character, or a literal",
        assumptions=["fixed-point values are those the reader builds with from_float(k/256)",
                     "backslash followed by anything but n or a quote has no documented meaning and is not used in part B",
                     "position-mark offsets {0, 2} only (offset 4 is documented as the same half tile)"],
        bounds={"max_string_length": L})
