"""C02 — decompiled source denotes the input routines; recompiling preserves behaviour.

(P over I) per input x: Machine(x) x Machine(compile(decompile(x))) and Machine(x) x Ref(decompile(x) read per the
specification) are explored completely for every routine; for compiler-made inputs also Ref(p) x Ref(decompile(compile(p))).
"""
from __future__ import annotations

import time

from .. import decomp, esast as A, impl, lts, reader, refsem, runner
from . import decomp_common as DC

ID = "C02"
LEVEL = "model_checking"


def run_case(cid, case):
    m = DC.materialise(cid, case)
    if m is None:
        return {"outcome": "input-outside-quantifier"}
    rops, infos, coros, src, prog = m
    an = decomp.analyse(rops, infos, coros, want_c09=False)
    if an.exception:
        if an.exception[0].startswith("Harness"):
            return {"outcome": "harness-error", "harness_error": str(an.exception)}
        return {"outcome": "decompiler-raised (C06)"}
    viols = list(an.c02)
    states, transitions = an.states, an.transitions
    if cid[0] == "A" and not viols and not an.fallback:
        # decompile(compile(p)) behaves like p: source-level comparison of the two texts
        try:
            ref_p = refsem.ref_program(prog, impl.PERF)
            prog2 = reader.read_program(an.text)
            ref_d = refsem.ref_program(prog2, impl.PERF)
            if len(ref_p.entries) == len(ref_d.entries):
                for r, (a, b) in enumerate(zip(ref_p.entries, ref_d.entries)):
                    if lts.has_silent_cycle(ref_p.lts, a):
                        continue
                    ok, st, tr, rel, mm = lts.product(ref_p.lts, a, ref_d.lts, b, label_eq=decomp.label_eq)
                    states += st
                    transitions += tr
                    if not ok:
                        viols.append({"kind": "behaviour-diff:source", "detail": {
                            "routine": r, "source": src, "text": an.text, "mismatch": mm.as_dict()}})
        except (refsem.RefError, reader.ReadError):
            pass
    oc = "fallback" if an.fallback else "structured"
    res = {"outcome": oc if not viols else "violation", "nt": cid if DC.nontrivial(rops) else None,
           "states": states, "transitions": transitions}
    if viols:
        feats = decomp.input_features(rops)
        for v in viols:
            if src:
                v["detail"]["source"] = src
            v["detail"]["features"] = feats
        res["viol"] = viols
    elif hash(repr(cid)) % 4000 == 0:
        res["sample"] = {"input": decomp.describe(rops), "text": an.text, "product_states": states}
    return res


def classify(v):
    """Root cause of a violation (development-time grouping for known_findings.json); None = not a known root cause."""
    f = v["detail"].get("features") or {}
    kind = v["kind"]
    if f.get("cyclic") and kind.startswith("behaviour-diff"):
        return "C02-loops-misread"
    if f.get("cyclic") and kind.startswith("reject"):
        return "C02-loops-rejected"
    return None


def run(tier, seed):
    t0 = time.time()
    DC.SEED = seed
    impl.warm()
    total = runner.explore(DC.make_cases_for(tier, seed), run_case, timeout=20.0)
    return runner.finish(
        ID, LEVEL, tier, seed, total, t0,
        rule=DC.rule_text(tier) + "; per input the text must be accepted by the compiler, and three complete product searches "
             "must be clean: Machine(x) x Machine(compile(text)), Ref(text) x Machine(x), and for (A) Ref(p) x Ref(text); routine "
             "tables must be equal; states/transitions are summed over these products; "
             "non-trivial = input with a jump-carrying op",
        assumptions=["vf/reader.py + the repository's generated parser read the decompiler's text (front end (b) of DESIGN.md 1.2)",
                     "a dungeon-mode number 0..3 and the configured constant are equal",
                     "a raise or hang of the decompiler is C06's finding and only counted here"],
        bounds={"tier": tier})
