"""C18 — the position-mark listing delimits every Position literal exactly.

(I) programs with 0-3 Position literals at every syntactic site x layout deviations around and inside the
literals; oracle = independent token scan (spans, values) + differential text-edit vs AST-edit recompilation.
"""
from __future__ import annotations

import itertools
import time

from .. import esast as A
from .. import gen_layout as GL
from .. import impl, lts, reader, runner
from .C16 import signature

ID = "C18"
LEVEL = "exploration"
SITES = ["routine_op", "in_if", "macro_body", "macro_call_arg", "nested_call_arg", "switch_header", "two_in_one", "second_routine"]


def mark(i, variant=0):
    xo = 2 if (i + variant) % 2 else 0
    yo = 2 if (i + variant) % 3 == 0 else 0
    return ("p", f"mark{i}" if variant % 2 == 0 else f"m {i}'s", xo, yo, 3 + i, 10 * i)


ORDERS = [None, [("r", 0), ("r", 1), ("m", 0), ("m", 1)], [("r", 0), ("m", 1), ("r", 1), ("m", 0)]]


def build(sites, variant=0, order=0):
    """Program with one (or two) Position literal(s) per chosen site; returns Program.  order: macros first / routines first /
    interleaved (a macro may be defined behind the routine that uses it)."""
    n = [0]

    def mk():
        n[0] += 1
        return mark(n[0], variant)
    r0 = [A.Op("first_op", [("i", 1)])]
    if "routine_op" in sites:
        r0.append(A.Op("move", [("i", 2), mk(), ("s", "after")]))
    if "in_if" in sites:
        r0.append(A.If([A.IfBranch(False, [A.Cond("special", False, "debug")], [A.Op("inner", [mk()])])], [A.Op("other", [])]))
    inner_body = [A.Op("inner_macro_op", [("c", "$q")])]
    outer_body = [A.Op("outer_macro_op", [("c", "$p")])]
    if "macro_body" in sites:
        outer_body.append(A.Op("macro_place", [mk(), ("c", "$p")]))
    if "nested_call_arg" in sites:
        outer_body.append(A.MacroCall("inner", [mk()]))
    else:
        outer_body.append(A.MacroCall("inner", [("i", 5)]))
    macros = [A.Macro("inner", ["$q"], inner_body), A.Macro("outer", ["$p"], outer_body)]
    if "macro_call_arg" in sites:
        r0.append(A.MacroCall("outer", [mk()]))
    else:
        r0.append(A.MacroCall("outer", [("c", "PLAIN")]))
    if "switch_header" in sites:
        r0.append(A.Switch(A.SwitchHeader("opcall", "CheckPos", (mk(), ("i", 0))),
                           [A.SwitchItem(A.CaseHeader("val", ("i", 1)), [A.Op("c1"), A.Ctrl("break")]), A.SwitchItem(None, [A.Op("dflt")])]))
    if "two_in_one" in sites:
        r0.append(A.Op("line", [mk(), mk()]))
    r0.append(A.Ctrl("end"))
    routines = [A.Routine("def", 0, r0)]
    r1 = [A.Op("second", [mk()] if "second_routine" in sites else []), A.Ctrl("hold")]
    routines.append(A.Routine("for", 1, r1, target_kind="actor", target=("i", 2)))
    return A.Program(routines, macros, order=ORDERS[order])


def map_marks(prog, fn):
    """New Program with fn(index, value) applied to every position-mark value in rendering order."""
    idx = [0]

    def val(v):
        if v[0] == "p":
            i = idx[0]
            idx[0] += 1
            return fn(i, v)
        return v

    def stmts(ss):
        out = []
        for s in ss:
            if isinstance(s, A.Op):
                out.append(A.Op(s.name, [val(a) for a in s.args], s.ctx))
            elif isinstance(s, A.MacroCall):
                out.append(A.MacroCall(s.name, [val(a) for a in s.args]))
            elif isinstance(s, A.If):
                out.append(A.If([A.IfBranch(b.neg, b.conds, stmts(b.body)) for b in s.branches],
                                None if s.else_body is None else stmts(s.else_body)))
            elif isinstance(s, A.Switch):
                h = s.header
                if h.kind == "opcall":
                    h = A.SwitchHeader("opcall", h.data[0], tuple(val(a) for a in h.data[1]), h.data[2])
                out.append(A.Switch(h, [A.SwitchItem(it.header, stmts(it.body)) for it in s.items]))
            else:
                out.append(s)
        return out
    # rendering order: Program.toplevel (macros first, then routines, unless the program says otherwise)
    order = prog.order or ([("m", i) for i in range(len(prog.macros))] + [("r", i) for i in range(len(prog.routines))])
    macros = [None] * len(prog.macros)
    routines = [None] * len(prog.routines)
    for k, i in order:
        if k == "m":
            m = prog.macros[i]
            macros[i] = A.Macro(m.name, m.params, stmts(m.body))
        else:
            r = prog.routines[i]
            routines[i] = A.Routine(r.kind, r.rid, None if r.body is None else stmts(r.body), name=r.name, target_kind=r.target_kind,
                                    target=r.target, legacy=r.legacy)
    return A.Program(routines, macros, order=prog.order)


def expected_literals(text):
    """Independent scan: [(start line, col, end line, col, start idx, end idx (of '>') , name, xo, yo, x, y)]"""
    toks = GL.scan(text)
    out = []
    i = 0
    while i < len(toks):
        if toks[i][0] == "Position" and i + 7 < len(toks) and toks[i + 1][0] == "<":
            seq = toks[i:i + 8]
            t = [s[0] for s in seq]
            if t[3] == "," and t[5] == "," and t[7] == ">":
                name = reader.eval_single_line(t[2])

                def coord(s):
                    if "." in s:
                        whole, _, frac = s.partition(".")
                        frac = frac.rstrip("0")
                        return int(whole or "0"), (2 if frac == "5" else 0)
                    return reader.eval_int(s), 0
                x, xo = coord(t[4])
                y, yo = coord(t[6])
                out.append((seq[0][1], seq[0][2], seq[7][1], seq[7][2], seq[0][3], seq[7][4], name, xo, yo, x, y))
                i += 8
                continue
        i += 1
    return out


def edited(v):
    return ("p", v[1] + "_e", 0 if v[2] else 2, 2 if not v[3] else 0, v[4] + 1, v[5] + 2)


def posmark_str(v):
    from explorerscript.ssb_converting.ssb_data_types import SsbOpParamPositionMarker
    return str(SsbOpParamPositionMarker(v[1], v[2], v[3], v[4], v[5]))


_AST_EDIT_CACHE = {}


def check_text(prog, text, nmarks, cache_key):
    """All obligations for one spelling of one program."""
    from explorerscript.explorerscript_reader import ExplorerScriptReader
    from explorerscript.ssb_converting.compiler.compiler_visitor.position_mark_visitor import PositionMarkVisitor
    viols = []
    try:
        tree = ExplorerScriptReader(text).read()
    except Exception as e:
        return [{"kind": "variant-does-not-parse", "detail": {"text": text, "error": str(e)[:200]}}], 0
    got = PositionMarkVisitor().visit(tree)
    exp = expected_literals(text)
    if len(exp) != nmarks:
        return [{"kind": "harness-scan-mismatch", "detail": {"text": text, "scanned": len(exp), "built": nmarks}}], 0
    got_t = [(m.line_number, m.column_number, m.end_line_number, m.end_column_number, m.name, m.x_offset, m.y_offset,
              m.x_relative, m.y_relative) for m in got]
    exp_t = [(e[0], e[1], e[2], e[3], e[6], e[7], e[8], e[9], e[10]) for e in exp]
    if got_t != exp_t:
        viols.append({"kind": "listing-differs", "detail": {"text": text, "got": got_t, "expected": exp_t}})
        return viols, 1
    # replacement of exactly the span by the printed form of an edited mark == editing the AST
    lines_start = [0]
    for i, ch in enumerate(text):
        if ch == "\n":
            lines_start.append(i + 1)
    compiles = 0
    for k, m in enumerate(got):
        start = lines_start[m.line_number] + m.column_number
        end = lines_start[m.end_line_number] + m.end_column_number
        orig = exp[k]
        newv = edited(("p", orig[6], orig[7], orig[8], orig[9], orig[10]))
        new_text = text[:start] + posmark_str(newv) + text[end + 1:]
        key = (cache_key, k)
        if key not in _AST_EDIT_CACHE:
            p2 = map_marks(prog, lambda i, v: edited(v) if i == k else v)
            try:
                _AST_EDIT_CACHE[key] = signature(impl.compile_es(A.render(p2)))
            except Exception:
                _AST_EDIT_CACHE[key] = None   # the compiler rejects the edited program as such: not this property's business
        want = _AST_EDIT_CACHE[key]
        if want is None:
            continue
        try:
            sig = signature(impl.compile_es(new_text))
            compiles += 1
        except Exception as e:
            viols.append({"kind": "edited-text-rejected", "detail": {"text": text, "edited": new_text, "literal": k, "error": str(e)[:200]}})
            continue
        if sig != want:
            viols.append({"kind": "edit-changes-something-else", "detail": {"text": text, "edited": new_text, "literal": k,
                                                                            "got": repr(sig)[:500], "want": repr(want)[:500]}})
    return viols, 1 + compiles


def spellings(prog, text, tier):
    yield ("default",), text
    yield ("compact",), A.render(prog, A.Style(multiline=False))
    yield ("dquote",), A.render(prog, A.Style(quote='"'))
    yield ("hex-trailing",), A.render(prog, A.Style(int_base=16, trailing_comma=True))
    toks = GL.tokenize(text)
    # deviations at every boundary inside and next to the literals, plus whole-text layouts
    inside = set()
    for i, t in enumerate(toks):
        if t == "Position":
            for j in range(i - 2, i + 9):
                if 0 <= j < len(toks) - 1:
                    inside.add(j)
    for tag, vtext in GL.one_deviation(toks):
        if tag[0] in ("sep", "glue"):
            if tag[1] in inside or tier != "quick":
                yield tag, vtext
        else:
            yield tag, vtext
    # number spellings inside the literal
    import re
    yield ("coords-decimal",), re.sub(r"(Position<[^,]+, )(\d+)(, )", lambda m: f"{m.group(1)}{m.group(2)}.0{m.group(3)}", text)
    yield ("coords-zeros",), re.sub(r"(\d+)\.5>", lambda m: f"0{m.group(1)}.500>", text)


def run_case(cid, case):
    sites, variant = case[0], case[1]
    prog = build(sites, variant, case[2] if len(case) > 2 else 0)
    text = A.render(prog)
    nmarks = len(expected_literals(text))
    try:
        base = signature(impl.compile_es(text))
    except Exception as e:
        return {"outcome": f"skipped:base-program-rejected:{type(e).__name__}"}
    _AST_EDIT_CACHE.clear()
    viols = []
    runs = 0
    nsp = 0
    for tag, vtext in spellings(prog, text, _TIER):
        nsp += 1
        v, r = check_text(prog, vtext, nmarks, cid)
        runs += r
        for one in v:
            one["detail"]["spelling"] = repr(tag)
        viols += v
        if len(viols) > 4:
            break
    res = {"outcome": "violation" if viols else "ok", "nt": cid if nmarks else None,
           "extra": {"spellings": nsp, "parse_or_compile_runs": runs, "literals": nmarks}}
    if viols:
        res["viol"] = viols[:4]
    elif hash(repr(cid)) % 10 == 0:
        res["sample"] = {"sites": list(sites), "source": text, "spellings": nsp}
    return res


_TIER = "quick"


def run(tier, seed):
    global _TIER
    t0 = time.time()
    _TIER = tier
    impl.warm()
    kmax = 2 if tier == "quick" else 3

    def make_cases():
        for k in range(0, kmax + 1):
            for sites in itertools.combinations(SITES, k):
                yield ("sites", sites, seed % 2), (sites, seed % 2)
                for order in (1, 2):
                    yield ("sites", sites, seed % 2, "order", order), (sites, seed % 2, order)
        if tier != "quick":
            yield ("sites", tuple(SITES), 0), (tuple(SITES), 0)
            yield ("sites", tuple(SITES), 1), (tuple(SITES), 1)
    total = runner.explore(make_cases, run_case, timeout=300.0)
    return runner.finish(
        ID, LEVEL, tier, seed, total, t0,
        rule=f"programs with Position literals at every subset of <= {kmax} of 8 syntactic sites (routine op, inside an if, macro "
             "body, macro-call argument, nested macro-call argument, switch header operation, two in one argument list, second "
             "routine) x 3 orders of the definitions (macros first, routines first, interleaved); per program: 4 re-renderings (indented, one line, double quotes, hex + trailing commas), every separator "
             "deviation (11 separators + glue) at every token boundary inside and next to the literals"
             + ("" if tier == "quick" else " and at every other boundary") + ", EOF / prefix variants, whole-text layouts, coordinate "
             "re-spellings; oracle: PositionMarkVisitor output == independent token scan (order, start of 'Position', position of "
             "'>', name, tiles, half tiles), and for every literal: replacing exactly the span by str(edited mark) compiles to the "
             "same ops as editing that literal in the AST; an evaluation is one program (spellings in counters); "
             "non-trivial = program with at least one literal",
        assumptions=["vf/gen_layout.scan is an independent reading of the lexical grammar (strings before comments, line joining)"],
        bounds={"max_sites": kmax})
