"""Input families and the per-input execution shared by C02, C06 and C09."""
from __future__ import annotations

from .. import decomp, esast as A, gen_forms, gen_prog as G, gen_ssb as GS, impl, lts

SSB_KINDS_QUICK = ("op", "br", "jump", "ret", "end", "call", "sw", "case")
SSB_KINDS_SMALL = ("op", "br", "jump", "end")
SEED = 0


def make_cases_for(tier, seed):
    quick = tier == "quick"

    def make_cases():
        # (A) compiler-shaped control flow
        yield from (((("A",) + cid), p) for cid, p in
                    G.programs(G.FULL, 2, 3, seed, G.SECOND_ROUTINES, compatible_cases=True))
        yield from (((("A",) + cid), p) for cid, p in
                    G.programs(G.REDUCED if quick else G.FULL, 3, 3, seed, ("none",), min_n=3, compatible_cases=True))
        if not quick:
            yield from (((("A",) + cid), p) for cid, p in
                        G.programs(G.TINY, 4, 3, seed, ("none",), min_n=4, compatible_cases=True))
        yield from (((("A",) + cid), p) for cid, p in G.chain_programs(seed, compatible_cases=True, big=not quick))
        yield from (((("A",) + cid), p) for cid, p in gen_forms.form_programs())
        yield from (((("A",) + cid), p) for cid, p in G.length_programs(seed, compatible_cases=True, max_len=6 if quick else 9))
        yield from (((("A",) + cid), p) for cid, p in G.switch_programs(seed, compatible_cases=True, big=not quick))
        yield from (((("A",) + cid), p) for cid, p in G.cross_programs(seed, compatible_cases=True))
        yield from (((("A",) + cid), p) for cid, p in observed_programs())
        # (B) other layouts of flow graphs: all well-formed routine sets
        for iv, shape in enumerate(GS.shapes(SSB_KINDS_QUICK, 3 if quick else 4, 2, wellformed=True)):
            yield ("B", iv % 5 if iv % 11 else 99, shape), shape
        for iv, shape in enumerate(GS.shapes(SSB_KINDS_SMALL, 4 if quick else 5, 1, wellformed=True, min_ops=4)):
            yield ("B", 0, shape), shape
        for iv, shape in enumerate(GS.shapes(("op", "ctx", "hold", "end", "br", "jump"), 3 if quick else 4, 2, wellformed=True)):
            yield ("B", iv % 5, shape), shape
        for i in range(N_FALLBACK_PARAM_SETS):
            yield ("F", i), i
        for i in range(len(special_value_sets())):
            yield ("V", i), i
        for i in range(len(OBSERVED_SETS)):
            yield ("R", i), i
    return make_cases


def rule_text(tier):
    quick = tier == "quick"
    return ("inputs: (A) compile(p) for every p of G-prog (FULL alphabet N<=2 x second-routine variants, "
            + ("REDUCED N=3" if quick else "FULL N=3, TINY N=4") + "; all if/elseif/else chains with 2-3 branches whose blocks are "
            "empty / plain / leave the routine / jump behind the chain, or-groups of 1-3 conditions; G-forms; G-lengths: a switch / if whose two "
            "branch bodies have 0..2 against 0.." + ("6" if quick else "9") + " ops, as body of or in front of / behind forever / while / for loops (7 block kinds x 10 placements); G-switch: every switch with 3 "
            + ("" if quick else "(and 4) ") + "cases x 7 body kinds per case (break only, op + break, op + return, jump behind the switch, fall through ..) x default none / last / grouped); G-cross: labels reached only from another routine) and (B) every well-formed G-ssb routine set with <= "
            + ("3" if quick else "4") + " ops in <= 2 routines over {op, branch, jump, return, end, call, switch, case} (every jump "
            "target, every split, unreachable ops, cross-routine jumps, routines starting with a Jump), single routines with "
            + ("4" if quick else "4-5") + " ops over {op, branch, jump, end}, sets with context ops / hold, and (F) 38 sets that take the "
            "SsbScript fallback and carry one parameter value of every kind (negative position-mark coordinates, strings with quotes / new lines ..) and (V) 62 sets with boolean-like tests "
            "(debug / edit / variation / performance) on other numbers than 0 and 1 bit operations on the performance progress list and every operator number in the value / variable forms of assignments, conditions and cases, (R) 10 sets beyond the size or kind bounds of (B) that random searches once found failing")


def materialise(cid, case):
    """-> (rops, infos, coros, source_text|None) or None when the generated program is outside the quantifier."""
    if cid[0] == "A":
        # every routine gets a terminator so that the compiled routine set is well formed (no path runs off the end)
        terms = ("end", "return", "hold")
        routines = []
        for i, r in enumerate(case.routines):
            if r.body is None:
                routines.append(r)
            else:
                routines.append(A.Routine(r.kind, r.rid, list(r.body) + [A.Ctrl(terms[(SEED + i + len(r.body)) % 3])], name=r.name,
                                          target_kind=r.target_kind, target=r.target, legacy=r.legacy))
        case = A.Program(routines, case.macros)
        text = A.render(case)
        try:
            comp = impl.compile_es(text)
            m, entries = lts.machine(comp.routine_ops, jump_index_last=False)
        except Exception:
            return None
        if not lts.machine_wellformed(m, entries):
            return None
        return comp.routine_ops, comp.routine_infos, comp.named_coroutines, text, case
    if cid[0] == "F":
        return fallback_param_set(case) + (None, None)
    if cid[0] == "V":
        return special_value_set(case) + (None, None)
    if cid[0] == "R":
        return observed_set(case) + (None, None)
    rops, infos, coros = GS.materialize(case, SEED, info_variant=cid[1])
    return rops, infos, coros, None, None


def param_values():
    from explorerscript.ssb_converting.ssb_data_types import (SsbOpParamConstant, SsbOpParamConstString, SsbOpParamLanguageString,
                                                             SsbOpParamFixedPoint, SsbOpParamPositionMarker)
    return [
        0, -1, 32767, -32768, SsbOpParamFixedPoint(1, "5"), SsbOpParamFixedPoint(-3, "25"),
        SsbOpParamFixedPoint(SsbOpParamFixedPoint.NegativeZero, "5"), SsbOpParamConstant("CONST_A"), SsbOpParamConstant("$VAR_A"),
        SsbOpParamConstString(""), SsbOpParamConstString("it's"), SsbOpParamConstString('say "x"'), SsbOpParamConstString("two\nlines"),
        SsbOpParamConstString(" lead\n and trail "), SsbOpParamLanguageString({"english": "a", "german": "b\nc"}),
        SsbOpParamPositionMarker("m0", 0, 0, 1, 2), SsbOpParamPositionMarker("m1", 2, 0, -1, 4), SsbOpParamPositionMarker("m 2's", 0, 2, 5, -1),
        SsbOpParamPositionMarker("m3", 2, 2, -1, -1),
    ]


N_FALLBACK_PARAM_SETS = 19 * 2


def observed_programs():
    """Compiler inputs beyond the size bounds of the skeleton families that random searches once found failing."""
    dbg = A.Cond("special", False, "debug")
    c1 = A.Cond("op", ("c", "$C"), "==", "int", ("i", 1))
    x2 = A.Cond("op", ("c", "$X"), "==", "int", ("i", 2))
    # a loop of tests only, followed by a second loop, inside an if
    yield ("observed", "two-loops-in-if"), A.Program([A.Routine("def", 0, [
        A.If([A.IfBranch(False, [x2], [A.While(False, c1, []),
                                       A.Forever([A.Op("b", []), A.If([A.IfBranch(False, [dbg], [A.Ctrl("end")])], None)])])], None)])])
    yield ("observed", "two-loops-in-case"), A.Program([A.Routine("def", 0, [
        A.Switch(A.SwitchHeader("var", ("c", "$S")), [A.SwitchItem(A.CaseHeader("val", ("i", 1)), [
            A.While(True, c1, []), A.Forever([A.Op("b", []), A.If([A.IfBranch(False, [dbg], [A.Ctrl("return")])], None)])])])])])


def special_value_sets():
    """(V) ops whose ExplorerScript form expresses only some parameter values (boolean-like tests with other numbers, bit ops
    on the performance progress list, which has forms of its own)."""
    from explorerscript.ssb_converting.ssb_data_types import SsbOperation, SsbOpCode, SsbOpParamConstant as C

    def O(off, name, params):
        return SsbOperation(off, SsbOpCode(-1, name), params)
    perf = C(impl.PERF)
    out = []
    for name in ("BranchDebug", "BranchEdit", "BranchVariation"):
        for v in (0, 1, 2, -1, 255):
            out.append([O(1, "pre", []), O(2, name, [v, 6]), O(5, "a", []), O(6, "End", [])])
    for v in (0, 1, 2, -1):
        out.append([O(1, "BranchPerformance", [3, v, 6]), O(5, "a", []), O(6, "End", [])])
        out.append([O(1, "flag_SetPerformance", [3, v]), O(4, "End", [])])
        out.append([O(1, "flag_CalcBit", [perf, 3, v]), O(5, "Hold", [])])
        out.append([O(1, "flag_CalcBit", [C("$OTHER"), 3, v]), O(5, "Hold", [])])
    # ops whose natural spelling belongs to a shorter op (`$V = 5;` is flag_Set, `$V == 5` is Branch), every operator
    for opr in range(0, 5):
        out.append([O(1, "flag_CalcValue", [C("$V"), opr, 5]), O(5, "flag_CalcVariable", [C("$V"), opr, C("$W")]), O(9, "Hold", [])])
    for opr in range(0, 11):
        out.append([O(1, "BranchValue", [C("$V"), opr, 5, 7]), O(6, "a", []), O(7, "BranchVariable", [C("$V"), opr, C("$W"), 13]), O(12, "b", []),
                    O(13, "End", [])])
        out.append([O(1, "Switch", [C("$V")]), O(3, "CaseValue", [opr, 5, 9]), O(7, "CaseVariable", [opr, C("$W"), 11]), O(9, "a", []),
                    O(11, "End", [])])
    out.append([O(1, "BranchBit", [perf, 3, 6]), O(5, "a", []), O(6, "End", [])])
    out.append([O(1, "BranchBit", [C("$OTHER"), 3, 6]), O(5, "a", []), O(6, "End", [])])
    out.append([O(1, "flag_Set", [perf, 1]), O(4, "flag_CalcValue", [perf, 2, 1]), O(8, "flag_Clear", [perf]), O(10, "Return", [])])
    out.append([O(1, "Branch", [perf, 1, 6]), O(5, "a", []), O(6, "BranchValue", [perf, 3, 1, 12]), O(11, "b", []), O(12, "End", [])])
    return out


# (R) routine sets beyond the size bounds of (B) that were found failing once (by sub-agents' random searches); written as
# (opcode, parameters, index of the target op or None)
OBSERVED_SETS = [
    [("Switch", ["$V"], None), ("Case", [1], 4), ("message_Talk", [1], None), ("Jump", [], 6), ("Call", [], 2), ("Jump", [], 6), ("Return", [], None)],
    [("Jump", [], 4), ("op_x", [1], None), ("Branch", ["$V0", 3], 0), ("Jump", [], 4), ("Case", [1], 2), ("Case", [2], 3), ("End", [], None)],
    [("op_x", [0], None), ("op_y", [1], None), ("Case", [0], 5), ("Case", [1], 1), ("op_z", [4], None), ("Jump", [], 2), ("End", [], None)],
    [("foo", [], None), ("Jump", [], 2), ("bar", [], None), ("Return", [], None)],
    [("BranchBit", ["$B", 3], 3), ("WaitAnimation", [], None), ("Jump", [], 6), ("Branch", ["$V", 1], 6), ("Call", [], 1), ("Jump", [], 6), ("Return", [], None)],
    [("Switch", ["$V"], None), ("Case", [1], 4), ("Case", [2], 6), ("Jump", [], 8), ("a", [], None), ("Jump", [], 8), ("Call", [], 4), ("Jump", [], 8), ("Hold", [], None)],
    [("a", [], None), ("Call", [], 3), ("End", [], None), ("b", [], None), ("Call", [], 0), ("Return", [], None)],
    # message switches whose default is not the last case op, or that have two
    [("message_SwitchTalk", ["$M"], None), ("DefaultText", ["str:d"], None), ("CaseText", [1, "str:t"], None), ("Return", [], None)],
    [("message_SwitchMonologue", ["$M"], None), ("CaseText", [1, "str:t"], None), ("DefaultText", ["str:d"], None), ("DefaultText", ["str:e"], None), ("End", [], None)],
    [("message_SwitchTalk", ["$M"], None), ("CaseText", [2, "str:u"], None), ("CaseText", [1, "str:t"], None), ("DefaultText", ["str:d"], None), ("Hold", [], None)],
]


def observed_set(i):
    from explorerscript.ssb_converting.ssb_data_types import SsbOperation, SsbOpCode, SsbRoutineInfo, SsbRoutineType, SsbOpParamConstant
    spec = OBSERVED_SETS[i]
    offs = []
    off = 1
    for name, params, target in spec:
        offs.append(off)
        off += 1 + len(params) + (1 if target is not None else 0)
    ops = []
    for (name, params, target), o in zip(spec, offs):
        from explorerscript.ssb_converting.ssb_data_types import SsbOpParamConstString
        ps = [SsbOpParamConstString(p[4:]) if isinstance(p, str) and p.startswith("str:") else SsbOpParamConstant(p) if isinstance(p, str) else p
              for p in params]
        if target is not None:
            ps.insert(lts.JUMP_INDEX[name], offs[target])
        ops.append(SsbOperation(o, SsbOpCode(-1, name), ps))
    return [ops], [SsbRoutineInfo(SsbRoutineType.GENERIC, 0)], [None]


def special_value_set(i):
    from explorerscript.ssb_converting.ssb_data_types import SsbRoutineInfo, SsbRoutineType
    return [special_value_sets()[i]], [SsbRoutineInfo(SsbRoutineType.GENERIC, 0)], [None]


def fallback_param_set(i):
    """(F) a routine set that takes the SsbScript fallback (a Case op without a switch) and carries one parameter value of
    every kind, in the routine that fails or in the other one."""
    from explorerscript.ssb_converting.ssb_data_types import SsbOperation, SsbOpCode, SsbRoutineInfo, SsbRoutineType
    v = param_values()[i // 2]

    def O(off, name, params):
        return SsbOperation(off, SsbOpCode(-1, name), params)
    bad = [O(20, "op0", []), O(21, "Case", [0, 21]), O(24, "Jump", [21])]
    if i % 2 == 0:
        rops = [[O(1, "holder", [7, v]), O(5, "BranchDebug", [1, 5]), O(8, "End", [])], bad]
    else:
        rops = [[O(1, "End", [])], [O(20, "holder", [v, v]), O(24, "Case", [0, 24]), O(27, "Jump", [24])]]
    return rops, [SsbRoutineInfo(SsbRoutineType.GENERIC, 0), SsbRoutineInfo(SsbRoutineType.ACTOR, 3)], [None, None]


def nontrivial(rops):
    return any(op.op_code.name in ("Jump",) or op.op_code.name.startswith(("Branch", "Case", "Call")) for r in rops for op in r)
