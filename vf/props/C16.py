"""C16 — layout, comments and alternative spellings do not change the compiled ops.

(I) base programs (G-forms + a G-prog slice + lexer-corner programs) x G-layout variants.
"""
from __future__ import annotations

import time

from .. import esast as A
from .. import gen_forms, gen_layout as GL, gen_prog as G
from .. import impl, lts, runner

ID = "C16"
LEVEL = "exploration"
_SEED = 0


def signature(comp):
    ops = [[(op.op_code.name, tuple(lts.canon_param(p) for p in op.params)) for op in r] for r in comp.routine_ops]
    # jump targets as (routine, index)
    pos = {}
    for r, rops in enumerate(comp.routine_ops):
        for i, op in enumerate(rops):
            pos[op.offset] = (r, i)
    norm = []
    for r, rops in enumerate(comp.routine_ops):
        row = []
        for op in rops:
            params = [lts.canon_param(p) for p in op.params]
            if op.op_code.name in lts.JUMP_INDEX and params:
                params[-1] = ("target", pos.get(op.params[-1]))
            row.append((op.op_code.name, tuple(params)))
        norm.append(row)
    marks = sorted((m.name, m.x_offset, m.y_offset, m.x_relative, m.y_relative)
                   for m in comp.source_map.get_position_marks__direct())
    return norm, impl.routine_table(comp.routine_infos, comp.named_coroutines), marks


def corner_programs():
    """Programs that force lexer corners."""
    kw_ids = ["if_then", "casex", "defined", "notify", "message_SwitchTalker", "valueOf", "endgame", "hold_it",
              "for_actor_x", "Position1", "jumpy", "calling", "switcher", "elseif_x", "returned", "alias_x", "previous_x",
              "coroutine", "macroX", "import_x", "break_loop_x", "continue_x", "with_x", "forevermore", "whileaway",
              "debugger", "editx", "variation2", "random_x", "sector9", "dungeon_mode_x", "menu3", "menu2x", "default_x",
              "clear_x", "reset_x", "init_x", "scnx", "dungeon_result_x", "adventure_log_x", "FALSEY", "TRUE_X", "notx"]
    n = 0
    for i in range(0, len(kw_ids), 4):
        names = kw_ids[i:i + 4]
        body = [A.Op(nm, [("c", names[(j + 1) % len(names)]), ("i", -j)]) for j, nm in enumerate(names)]
        n += 1
        yield ("corner", "kwid", n), A.Program([A.Routine("def", 0, body + [A.Ctrl("end")])])
    # '-' glued to numbers, decimals, operators next to negative numbers
    body = [
        A.If([A.IfBranch(False, [A.Cond("op", ("c", "$A"), "<", "int", ("i", -2))], [A.Op("neg", [("i", -1), ("f", "-0.5"), ("f", "-1.25")])])]),
        A.Assign("reg", ("c", "$A"), None, "-=", "int", ("i", -3)),
        A.Assign("reg", ("c", "$A"), None, "=", "int", ("i", -3)),
        A.Switch(A.SwitchHeader("var", ("c", "$S")), [A.SwitchItem(A.CaseHeader("op", ">", "int", ("i", -4)), [A.Op("c1")]),
                                                   A.SwitchItem(A.CaseHeader("val", ("i", -5)), [A.Op("c2")])]),
        A.Op("marks", [("p", "m", 2, 0, 3, 4), ("p", "n", 0, 2, 10, 0)]),
        A.Ctrl("hold"),
    ]
    yield ("corner", "minus"), A.Program([A.Routine("def", 0, body)])
    yield ("corner", "strings"), A.Program([A.Routine("def", 0, [
        A.Op("s", [("s", "a b"), ("s", ""), ("s", "it's"), ("s", 'say "x"'), ("s", "// not a comment"), ("s", "/* nor this */"),
                   ("l", (("english", "x"), ("german", "y")))]),
        A.MsgSwitch("message_SwitchTalk", ("c", "$K"), [(("i", 1), ("s", "one // x")), (("i", 2), ("l", (("english", "/*"),)))], ("s", "d")),
        A.Ctrl("end")])])
    yield ("corner", "newline-strings"), A.Program([A.Routine("def", 0, [
        A.Op("s", [("s", "two\nlines"), ("i", 1), ("s", "a\n\nc"), ("l", (("english", "x\ny"), ("german", "one")))]),
        A.MsgSwitch("message_SwitchTalk", ("c", "$K"), [(("i", 1), ("s", "first\nsecond\nthird"))], ("s", "d\ne")),
        A.Ctrl("end")])])
    yield ("corner", "routines"), A.Program([
        A.Routine("for", 0, [A.Op("a"), A.Label("L"), A.Jump("L")], target_kind="actor", target=("c", "ACTOR_X")),
        A.Routine("for", 1, [A.Op("b"), A.Ctrl("hold")], target_kind="object", target=("i", 3)),
        A.Routine("for", 2, None, target_kind="performer", target=("i", 0)),
        A.Routine("def", 3, [A.With("actor", ("i", 2), A.Op("w")), A.Op("x", [("i", 1)], ctx=("performer", ("c", "P"))), A.Ctrl("return")])])
    yield ("corner", "macros"), A.Program(
        [A.Routine("def", 0, [A.MacroCall("mm", [("i", 1), ("s", "x")]), A.MacroCall("nn", []), A.Ctrl("end")])],
        [A.Macro("mm", ["$a", "$b"], [A.Op("in_m", [("c", "$a"), ("c", "$b")]), A.MacroCall("nn", [])]),
         A.Macro("nn", [], [A.Op("in_n")])])


def base_programs(seed, tier):
    yield from corner_programs()
    forms = list(gen_forms.form_programs())
    step = 6 if tier == "quick" else 2
    for i in range(seed % step, len(forms), step):
        yield forms[i]
    progs = list(G.programs(G.FULL, 2, 3, seed, ("none", "coro", "for_actor")))
    step2 = 24 if tier == "quick" else 6
    for i in range(seed % step2, len(progs), step2):
        yield progs[i]


SPELLINGS = {
    "paragraph": A.Style(label_sigil="§"),
    "legacy_for": A.Style(legacy_for=True),
    "trailing_comma": A.Style(trailing_comma=True),
    "hex": A.Style(int_base=16),
    "oct": A.Style(int_base=8),
    "bin": A.Style(int_base=2),
    "dquote": A.Style(quote='"'),
    "compact": A.Style(multiline=False),
}


def respell_decimals(text):
    import re
    return re.sub(r"(?<![\w.$'\"])(-?)(\d+\.\d+)", lambda m: m.group(1) + "00" + m.group(2), text)


def respell_triple(text, q):
    """Single-line strings without quotes/backslashes/newlines re-spelled as single-line triple-quoted strings."""
    import re
    toks = GL.tokenize(text)
    out = []
    for i, t in enumerate(toks):
        # position mark names must be STRING_LITERALs (not multi-line literals) by the grammar
        in_posmark = i >= 2 and toks[i - 1] == "<" and toks[i - 2] == "Position"
        if re.fullmatch(r"'[^'\\\n\"]+'", t) and not in_posmark:
            out.append(q * 3 + t[1:-1] + q * 3)
        else:
            out.append(t)
    return GL.join(out, GL.default_seps(out))


def respell_multiline(text, q):
    """Single-line strings with \\n escapes (and nothing else that needs care) re-spelled as multi-line literals that span
    several source lines: content lines equally indented, closing quotes on a line of their own."""
    import re
    toks = GL.tokenize(text)
    out = []
    changed = False
    for i, t in enumerate(toks):
        in_posmark = i >= 2 and toks[i - 1] == "<" and toks[i - 2] == "Position"
        m = re.fullmatch(r"'((?:[^'\\\n\"]|\\n)+)'", t)
        if m and "\\n" in t and not in_posmark:
            lines = m.group(1).split("\\n")
            if all(ln == "" or not ln.startswith(" ") for ln in lines) and lines[0] != "" and lines[-1] != "":
                out.append(q * 3 + "\n" + "".join("      " + ln + "\n" for ln in lines[:-1]) + "      " + lines[-1] + "\n    " + q * 3)
                changed = True
                continue
        out.append(t)
    return GL.join(out, GL.default_seps(out)) if changed else None


# groups of texts that differ only in a spelling the property lists and that no renderer style produces
SPELLING_GROUPS = [
    # decimals without / with redundant leading zeros (and trailing zeros), positive and negative, as fixed-point arguments ...
    ["def 0 { a(0.5, 1); }", "def 0 { a(.5, 1); }", "def 0 { a(00.5, 1); }", "def 0 { a(000.5, 0x1); }"],
    ["def 0 { a(-0.5); }", "def 0 { a(-.5); }", "def 0 { a(-00.5); }"],
    ["def 0 { a(-1.25, 12.5); }", "def 0 { a(-01.25, 012.5); }", "def 0 { a(-001.25, 0012.5); }"],
    # ... and as position-mark coordinates
    ["def 0 { a(Position<'m', 0.5, 1>); }", "def 0 { a(Position<'m', .5, 1>); }", "def 0 { a(Position<'m', 00.5, 0b1>); }",
     'def 0 { a(Position<"m", 0.5, 1,>); }' if False else "def 0 { a(Position<'m', 0.50, 1>); }"],
    ["def 0 { a(Position<'m', -0.5, 1>); }", "def 0 { a(Position<'m', -.5, 1>); }", "def 0 { a(Position<'m', -00.5, 1>); }"],
    ["def 0 { a(Position<'m', 7.5, -2.0>); }", "def 0 { a(Position<'m', 07.5, -02.0>); }", "def 0 { a(Position<'m', 007.50, -2.00>); }"],
    ["def 0 { a(Position<'m', 3, 4>); }", "def 0 { a(Position<'m', 0x3, 0b100>); }", "def 0 { a(Position<\"m\", 3.0, 4.0>); }"],
    # integers in every base, in every kind of place
    ["def 0 { if ($A[10]) { a(-10); } $B = 10; switch ($C) { case 10: b(); break; case > 10: c(); } } def 1 for actor 10 { d(10); }",
     "def 0x0 { if ($A[0xA]) { a(-0b1010); } $B = 0o12; switch ($C) { case 0XA: b(); break; case > 0B1010: c(); } } def 0b1 for actor 0O12 { d(0xa); }",
     "def 0o0 { if ($A[0b1010]) { a(-0o12); } $B = 0xA; switch ($C) { case 0o12: b(); break; case > 0xa: c(); } } def 0x1 for_actor(0b1010) { d(0O12); }"],
]


def run_group(cid, group):
    sigs = []
    viols = []
    for t in group:
        try:
            sigs.append(signature(impl.compile_es(t)))
        except Exception as e:
            sigs.append(None)
            viols.append({"kind": "variant-rejected:spelling", "detail": {"variant": t, "base": group[0], "text": t,
                                                                          "error": f"{type(e).__name__}: {e}"[:300]}})
    for t, sg in zip(group[1:], sigs[1:]):
        if sg is not None and sigs[0] is not None and sg != sigs[0]:
            viols.append({"kind": "variant-differs:spelling", "detail": {"variant": t, "base": group[0], "text": t,
                                                                         "base_sig": repr(sigs[0])[:600], "variant_sig": repr(sg)[:600]}})
    if sigs[0] is None:
        viols = [{"kind": "base-of-spelling-group-rejected", "detail": {"base": group[0]}}] + viols
    res = {"outcome": "violation" if viols else "ok", "nt": cid, "extra": {"variants": len(group) - 1}}
    if viols:
        res["viol"] = viols[:4]
    return res


def run_case(cid, prog):
    if cid[0] == "group":
        return run_group(cid, prog)
    text = A.render(prog)
    try:
        base = signature(impl.compile_es(text))
    except Exception as e:
        return {"outcome": f"base-not-compiled:{type(e).__name__}"}
    viols = []
    nvar = 0

    def check(tag, vtext):
        nonlocal nvar
        nvar += 1
        try:
            sig = signature(impl.compile_es(vtext))
        except Exception as e:
            viols.append({"kind": f"variant-rejected:{tag[0]}", "detail": {"variant": repr(tag), "base": text, "text": vtext,
                                                                          "error": f"{type(e).__name__}: {e}"[:300]}})
            return
        if sig != base:
            viols.append({"kind": f"variant-differs:{tag[0]}", "detail": {"variant": repr(tag), "base": text, "text": vtext,
                                                                         "base_sig": repr(base)[:600], "variant_sig": repr(sig)[:600]}})
    tokens = GL.tokenize(text)
    # the token re-join itself must be neutral
    check(("rejoin",), GL.join(tokens, GL.default_seps(tokens)))
    for tag, vtext in GL.one_deviation(tokens):
        check(tag, vtext)
        if len(viols) > 6:
            break
    if _TIER != "quick" and len(tokens) < 70:
        for tag, vtext in GL.two_deviations(tokens):
            check(tag, vtext)
            if len(viols) > 6:
                break
    for name, style in SPELLINGS.items():
        check(("spelling", name), A.render(prog, style))
    check(("spelling", "decimals"), respell_decimals(text))
    check(("spelling", "triple-single"), respell_triple(text, "'"))
    check(("spelling", "triple-double"), respell_triple(text, '"'))
    for q in ("'", '"'):
        ml = respell_multiline(text, q)
        if ml is not None:
            check(("spelling", "multi-line", q), ml)
            # the same file saved with other line ends (inside the literals too)
            check(("lineends", "crlf", q), ml.replace("\n", "\r\n"))
            check(("lineends", "cr", q), ml.replace("\n", "\r"))
    check(("lineends", "crlf"), text.replace("\n", "\r\n"))
    check(("lineends", "cr"), text.replace("\n", "\r"))
    res = {"outcome": "violation" if viols else "ok", "nt": cid if len(tokens) > 12 else None,
           "extra": {"variants": nvar, "tokens": len(tokens)}}
    if viols:
        res["viol"] = viols[:4]
    elif hash(repr(cid)) % 40 == 0:
        res["sample"] = {"base": text, "tokens": len(tokens), "variants": nvar}
    return res


_TIER = "quick"


def run(tier, seed):
    global _SEED, _TIER
    t0 = time.time()
    _SEED, _TIER = seed, tier
    impl.warm()

    def make_cases():
        yield from base_programs(seed, tier)
        for i, g in enumerate(SPELLING_GROUPS):
            yield ("group", i), g
    total = runner.explore(make_cases, run_case, timeout=120.0)
    return runner.finish(
        ID, LEVEL, tier, seed, total, t0,
        rule="base programs: lexer-corner programs (keyword-prefixed identifiers, '-' next to numbers, comment-like strings, all "
             "routine header forms, macros), every " + ("6th" if tier == "quick" else "2nd") + " G-forms program and every "
             + ("24th" if tier == "quick" else "6th") + " G-prog(FULL, N<=2) program (offset rotated by seed); per base program: every "
             "token boundary x 11 separators (blank, tab, LF, CRLF, block and line comments, line joining) + 'nothing' where "
             "re-lexing allows it, 9 EOF suffixes (incl. unterminated block comment), 7 prefixes, all-glued / all-comments / "
             "all-newlines / all-CRLF / all-joined" + ("" if tier == "quick" else ", adjacent boundary pairs x 6x6 separators") +
             ", and 11 re-spellings (section sign labels, for_actor(X), trailing commas, hex/oct/bin integers, leading-zero "
             "decimals, double / triple / multi-line quotes, CR LF and CR line ends, one-line layout), plus 8 hand-written groups of spellings "
             "(decimals with and without leading zeros as arguments and as position-mark coordinates, integer bases in every place); oracle: ops, jump targets as (routine, index), routine "
             "tables and position-mark values equal the base's; an evaluation is one base program (variants in counters.variants); "
             "non-trivial = base with more than 12 tokens",
        assumptions=["token boundaries of the base text come from vf/gen_layout.tokenize (independent of the repository's lexer)"],
        bounds={"tier": tier})
