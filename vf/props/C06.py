"""C06 — the decompiler always answers; its SsbScript fallback is marked and exact."""
from __future__ import annotations

import time

from .. import decomp, impl, runner
from . import decomp_common as DC

ID = "C06"
LEVEL = "exploration"


def run_case(cid, case):
    m = DC.materialise(cid, case)
    if m is None:
        return {"outcome": "input-outside-quantifier"}
    rops, infos, coros, src, prog = m
    an = decomp.analyse(rops, infos, coros, want_c09=False)
    if an.exception and an.exception[0].startswith("Harness"):
        return {"outcome": "harness-error", "harness_error": str(an.exception)}
    oc = "exception" if an.exception else ("fallback" if an.fallback else "structured")
    res = {"outcome": oc if not an.c06 else "violation", "nt": cid if DC.nontrivial(rops) else None,
           "states": an.states, "transitions": an.transitions}
    if an.c06:
        for v in an.c06:
            if src:
                v["detail"]["source"] = src
        res["viol"] = an.c06
    elif an.fallback and hash(repr(cid)) % 50 == 0 or (not an.fallback and hash(repr(cid)) % 4000 == 0):
        res["sample"] = {"input": decomp.describe(rops), "fallback": an.fallback, "text": an.text}
    return res


def run(tier, seed):
    t0 = time.time()
    DC.SEED = seed
    impl.warm()
    total = runner.explore(DC.make_cases_for(tier, seed), run_case, timeout=10.0, max_hangs=60)
    return runner.finish(
        ID, LEVEL, tier, seed, total, t0,
        rule=DC.rule_text(tier) + "; oracle per input: convert() returns (str, SourceMap) within the watchdog limit and raises "
             "nothing; if the text starts with the is-ssb-script marker, ExplorerScriptSsbCompiler.compile(text) reproduces the "
             "input op for op (structural comparison modulo renumbering); non-trivial = input with a jump-carrying op",
        assumptions=["a hang is an answer never given: 10 s wall clock against a typical 1 ms, confirmed once in isolation"],
        bounds={"tier": tier})
