"""Deterministic thread scheduler (sys.monitoring + baton semaphores) and preemption-bounded schedule exploration.

One execution = N real threads running real library calls; exactly one of them holds the baton at any time.
Scheduling points are LINE events on chosen code objects, function-entry (PY_START) events on chosen code
objects, cooperative-lock operations, thread start and thread exit.  At every point the scheduler consumes
one choice (index into the canonical list of enabled threads: the running thread first if still enabled,
then ascending ids); after the given prefix of choices it always takes choice 0.  Every execution runs in a
fresh fork of the template process; the explorer enumerates all schedules with at most `bound` preemptions
(iterative context bounding) by extending executed traces.
"""
from __future__ import annotations

import os
import pickle
import select
import signal
import sys
import threading
import time

TOOL_ID = 4


class Deadlock(Exception):
    pass


class ReplayDivergence(Exception):
    pass


class HorizonExceeded(Exception):
    pass


class CoopLock:
    """Replacement for threading.Lock under the scheduler: a blocked thread is *disabled* instead of hanging."""

    def __init__(self, sched):
        self.sched = sched
        self.owner = None
        self.waiters = []

    def acquire(self, blocking=True, timeout=-1):
        s = self.sched
        tid = s.tid()
        if tid is None:
            return True
        s.point("lock-acquire")
        while self.owner is not None and self.owner != tid:
            self.waiters.append(tid)
            s.block(tid)
        self.owner = tid
        return True

    def release(self):
        s = self.sched
        tid = s.tid()
        if tid is None:
            return
        self.owner = None
        for w in self.waiters:
            s.unblock(w)
        self.waiters = []
        s.point("lock-release")

    def __enter__(self):
        self.acquire()
        return self

    def __exit__(self, *a):
        self.release()
        return False

    def locked(self):
        return self.owner is not None


class Scheduler:
    def __init__(self, bodies, choices, horizon=400000):
        self.bodies = bodies
        self.n = len(bodies)
        self.sems = [threading.Semaphore(0) for _ in range(self.n)]
        self.state = ["ready"] * self.n
        self.current = None
        # a schedule is sparse: ((point index, choice), ...) for the points where the choice is not 0; a plain sequence
        # of choices (one per point) is accepted as well
        choices = list(choices)
        if choices and not isinstance(choices[0], (tuple, list)):
            choices = [(i, c) for i, c in enumerate(choices) if c]
        self.choices = {int(i): int(c) for i, c in choices}
        self.last_choice = max(self.choices, default=-1)
        self.pos = 0
        self.trace = []      # (number of enabled threads, running thread still enabled, choice taken, kind)
        self.results = [None] * self.n
        self.local = threading.local()
        self.done = threading.Event()
        self.error = None
        self.horizon = horizon
        self.in_point = False

    def tid(self):
        return getattr(self.local, "tid", None)

    def _enabled(self, cur):
        en = [i for i in range(self.n) if self.state[i] == "ready"]
        if cur is not None and cur in en:
            en.remove(cur)
            en.insert(0, cur)
        return en

    def _choose(self, cur, kind):
        en = self._enabled(cur)
        if not en:
            return None
        if len(self.trace) >= self.horizon:
            raise HorizonExceeded()
        c = self.choices.get(self.pos, 0)
        if c >= len(en):
            raise ReplayDivergence(f"choice {c} at point {self.pos} but only {len(en)} enabled")
        self.pos += 1
        self.trace.append((len(en), cur is not None and cur in en, c, kind))
        return en[c]

    def point(self, kind="line"):
        tid = self.tid()
        if tid is None or tid != self.current or self.in_point:
            return
        self.in_point = True
        try:
            nxt = self._choose(tid, kind)
        finally:
            self.in_point = False
        if nxt is not None and nxt != tid:
            self._switch(tid, nxt)

    def _switch(self, tid, nxt):
        self.current = nxt
        self.sems[nxt].release()
        self.sems[tid].acquire()

    def block(self, tid):
        self.state[tid] = "blocked"
        nxt = self._choose(tid, "blocked")
        if nxt is None:
            self.error = "deadlock: no enabled thread"
            self.done.set()
            raise Deadlock()
        self._switch(tid, nxt)

    def unblock(self, tid):
        if self.state[tid] == "blocked":
            self.state[tid] = "ready"

    def _finish(self, tid):
        self.state[tid] = "done"
        if all(s == "done" for s in self.state):
            self.done.set()
            return
        try:
            nxt = self._choose(tid, "exit")
        except BaseException as e:
            self.error = f"{type(e).__name__}: {e}"
            self.done.set()
            return
        if nxt is None:
            self.error = "deadlock: threads blocked at exit of another"
            self.done.set()
            return
        self.current = nxt
        self.sems[nxt].release()

    def _run(self, i):
        self.local.tid = i
        self.sems[i].acquire()
        try:
            self.results[i] = ("ok", self.bodies[i]())
        except (Deadlock, ReplayDivergence, HorizonExceeded) as e:
            self.error = f"{type(e).__name__}: {e}"
            self.done.set()
            return
        except BaseException as e:
            import traceback
            self.results[i] = ("raised", type(e).__name__, str(e)[:300], traceback.format_exc()[-600:])
        self._finish(i)

    def run(self):
        threads = [threading.Thread(target=self._run, args=(i,), daemon=True) for i in range(self.n)]
        for t in threads:
            t.start()
        first = self._choose(None, "start")
        self.current = first
        self.sems[first].release()
        self.done.wait()
        if self.error is None and self.pos <= self.last_choice:
            self.error = f"ReplayDivergence: the schedule has a choice at point {self.last_choice}, the execution ended after {self.pos} points"
        return self.results, self.trace, self.error


def install_monitoring(sched, line_codes, entry_codes):
    mon = sys.monitoring
    try:
        mon.use_tool_id(TOOL_ID, "vf-sched")
    except ValueError:
        pass

    def on_line(code, line):
        sched.point("line")

    def on_start(code, offset):
        sched.point("entry")
    mon.register_callback(TOOL_ID, mon.events.LINE, on_line)
    mon.register_callback(TOOL_ID, mon.events.PY_START, on_start)
    for code in line_codes:
        mon.set_local_events(TOOL_ID, code, mon.events.LINE | mon.events.PY_START)
    for code in entry_codes:
        if code not in line_codes:
            mon.set_local_events(TOOL_ID, code, mon.events.PY_START)


def code_objects_of(module, names=None):
    """Code objects of the functions / methods defined in a module (optionally only the named ones)."""
    import types
    out = []
    seen = set()

    def add(fn):
        code = getattr(fn, "__code__", None)
        if code is not None and id(code) not in seen and code.co_filename == getattr(module, "__file__", None):
            seen.add(id(code))
            out.append(code)
    for name, obj in vars(module).items():
        if names is not None and name not in names and not isinstance(obj, type):
            continue
        if isinstance(obj, types.FunctionType):
            add(obj)
        elif isinstance(obj, type) and obj.__module__ == module.__name__:
            for mname, m in vars(obj).items():
                if names is not None and mname not in names:
                    continue
                f = m.__func__ if isinstance(m, (staticmethod, classmethod)) else m
                if isinstance(f, types.FunctionType):
                    add(f)
                elif isinstance(f, property) and f.fget is not None:
                    add(f.fget)
    return out


# ------------------------------------------------------------------ one execution in a fresh fork
def execute(setup, choices, timeout=120.0):
    """setup() -> (bodies, line_codes, entry_codes, install_lock) is called in the child.
    Returns dict(results, trace, error) or dict(error='timeout'/'crash')."""
    r, w = os.pipe()
    pid = os.fork()
    if pid == 0:
        os.close(r)
        try:
            from . import runner
            runner.quiet()
            sched = Scheduler([], choices)
            bodies, line_codes, entry_codes, install_lock = setup(sched)
            sched.bodies = bodies
            sched.n = len(bodies)
            sched.sems = [threading.Semaphore(0) for _ in range(sched.n)]
            sched.state = ["ready"] * sched.n
            sched.results = [None] * sched.n
            if install_lock is not None:
                install_lock(CoopLock(sched))
            install_monitoring(sched, line_codes, entry_codes)
            results, trace, error = sched.run()
            data = pickle.dumps({"results": results, "trace": trace, "error": error})
        except BaseException as e:
            import traceback
            data = pickle.dumps({"error": f"harness: {type(e).__name__}: {e}\n{traceback.format_exc()[-800:]}", "results": None, "trace": []})
        try:
            os.write(w, data)
        finally:
            os._exit(0)
    os.close(w)
    return pid, r


def collect(pid, r, deadline):
    buf = b""
    while True:
        left = deadline - time.time()
        if left <= 0:
            try:
                os.kill(pid, signal.SIGKILL)
            except ProcessLookupError:
                pass
            os.waitpid(pid, 0)
            os.close(r)
            return {"error": "timeout", "results": None, "trace": []}
        rl, _, _ = select.select([r], [], [], min(left, 0.5))
        if rl:
            chunk = os.read(r, 1 << 20)
            if not chunk:
                break
            buf += chunk
    os.waitpid(pid, 0)
    os.close(r)
    if not buf:
        return {"error": "crash: no data from child", "results": None, "trace": []}
    return pickle.loads(buf)


def run_many(setup, prefixes, nworkers=16, timeout=120.0):
    """Execute all prefixes (each in its own fork), up to nworkers at a time. Yields (prefix, outcome)."""
    pending = list(prefixes)
    running = {}
    while pending or running:
        while pending and len(running) < nworkers:
            p = pending.pop()
            pid, r = execute(setup, p, timeout)
            running[r] = (pid, p, time.time() + timeout, b"")
        rl, _, _ = select.select(list(running), [], [], 0.2)
        now = time.time()
        for r in list(running):
            pid, p, deadline, buf = running[r]
            finished = None
            if r in rl:
                chunk = os.read(r, 1 << 20)
                if chunk:
                    running[r] = (pid, p, deadline, buf + chunk)
                    continue
                finished = pickle.loads(buf) if buf else {"error": "crash: no data from child", "results": None, "trace": []}
            elif now > deadline:
                try:
                    os.kill(pid, signal.SIGKILL)
                except ProcessLookupError:
                    pass
                finished = {"error": "timeout", "results": None, "trace": []}
            if finished is not None:
                try:
                    os.waitpid(pid, 0)
                except ChildProcessError:
                    pass
                os.close(r)
                del running[r]
                yield p, finished


def explore(setup, bound, check, nworkers=16, timeout=120.0, max_executions=None):
    """All schedules with <= bound preemptions. check(prefix, outcome) -> violation dict | None.
    Returns stats dict."""
    stats = {"executions": 0, "points": 0, "violations": [], "by_bound": [], "max_points": 0, "capped": None,
             "outcomes": {}}
    level = [()]
    for b in range(bound + 1):
        executed_here = 0
        next_level = []
        work = list(level)
        while work:
            batch, work = work, []
            for prefix, out in run_many(setup, batch, nworkers, timeout):
                stats["executions"] += 1
                executed_here += 1
                trace = out.get("trace") or []
                stats["points"] += len(trace)
                stats["max_points"] = max(stats["max_points"], len(trace))
                v = check(prefix, out)
                key = "ok" if v is None else v["kind"]
                stats["outcomes"][key] = stats["outcomes"].get(key, 0) + 1
                if v is not None:
                    stats["violations"].append(v)
                # schedules are sparse ((point, choice) pairs, 0 elsewhere): the choices of this execution in front of
                # point i are exactly those of its prefix
                start = prefix[-1][0] + 1 if prefix else 0
                for i in range(start, len(trace)):
                    n_en, running_enabled, _, _ = trace[i]
                    for alt in range(1, n_en):
                        newp = tuple(prefix) + ((i, alt),)
                        if running_enabled:
                            next_level.append(newp)
                        else:
                            work.append(newp)
                if max_executions and stats["executions"] >= max_executions:
                    stats["capped"] = f"execution cap {max_executions} hit at bound {b}"
                    stats["by_bound"].append(executed_here)
                    return stats
        stats["by_bound"].append(executed_here)
        level = next_level
    stats["next_bound_size"] = len(level)
    return stats
