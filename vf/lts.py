"""Labelled transition systems for SSB routines and ExplorerScript programs, and the product explorer.

An LTS is a dict node_id -> node, node being one of
    ('op',   label, next)              observable operation
    ('test', label, taken, not_taken)  observable test with two outcomes
    ('stop', kind)                     observable stop (Return / End / Hold)
    ('tau',  next)                     silent step (Jump, label, structural glue)
Labels are (opcode_name, params_tuple) with params in canonical form (see canon_param).
"""
from __future__ import annotations

from collections import deque

BRANCH_OPS = {
    "Branch": 2, "BranchBit": 2, "BranchDebug": 1, "BranchEdit": 1, "BranchExecuteSub": 1,
    "BranchPerformance": 2, "BranchScenarioNow": 3, "BranchScenarioNowAfter": 3,
    "BranchScenarioNowBefore": 3, "BranchScenarioAfter": 3, "BranchScenarioBefore": 3,
    "BranchSum": 3, "BranchValue": 3, "BranchVariable": 3, "BranchVariation": 1,
}
CASE_OPS = {"Case": 1, "CaseMenu": 1, "CaseMenu2": 1, "CaseScenario": 2, "CaseValue": 2, "CaseVariable": 2}
JUMP_INDEX = dict(BRANCH_OPS)
JUMP_INDEX.update(CASE_OPS)
JUMP_INDEX.update({"Jump": 0, "Call": 0})
STOP_OPS = ("Return", "End", "Hold")


def canon_param(p):
    """Implementation parameter object -> canonical tuple (by value and type)."""
    if isinstance(p, bool):
        return ("i", int(p))
    if isinstance(p, int):
        return ("i", p)
    n = type(p).__name__
    if n == "SsbOpParamFixedPoint":
        return ("f", p.value)
    if n == "SsbOpParamConstant":
        return ("c", p.name)
    if n == "SsbOpParamConstString":
        return ("s", p.name)
    if n == "SsbOpParamLanguageString":
        return ("l", tuple(p.strings.items()))
    if n == "SsbOpParamPositionMarker":
        return ("p", p.name, p.x_offset, p.y_offset, p.x_relative, p.y_relative)
    if isinstance(p, str):
        return ("rawstr", p)
    if isinstance(p, float):
        return ("rawfloat", repr(p))
    return ("unknown", n, repr(p))


class Divergence(Exception):
    """A silent cycle was met."""

    def __init__(self, side, node):
        super().__init__(f"silent cycle on side {side} at node {node!r}")
        self.side = side
        self.node = node


class MalformedMachine(Exception):
    pass


def machine(routine_ops, jump_index_last=True):
    """SSB machine model of a whole routine set.

    Returns (lts, entries) where entries[r] is the entry node of routine r (a fresh 'tau' node
    to the first op, or a stop(Return) for an empty routine).  Node ids are ('m', r, i) for the
    i-th op of routine r.  jump_index_last: compile output (target = last parameter); otherwise
    the index table of the binary format is used.
    """
    by_offset = {}
    for r, ops in enumerate(routine_ops):
        for i, op in enumerate(ops):
            if op.offset in by_offset:
                raise MalformedMachine(f"duplicate offset {op.offset}")
            by_offset[op.offset] = ("m", r, i)
    lts = {}
    entries = []
    for r, ops in enumerate(routine_ops):
        end = ("mend", r)
        lts[end] = ("stop", "Return")
        entries.append(("m", r, 0) if ops else end)
        for i, op in enumerate(ops):
            nid = ("m", r, i)
            nxt = ("m", r, i + 1) if i + 1 < len(ops) else end
            name = op.op_code.name
            if name in JUMP_INDEX:
                params = list(op.params)
                idx = len(params) - 1 if jump_index_last else JUMP_INDEX[name]
                if idx < 0 or idx >= len(params) or not isinstance(params[idx], int) or isinstance(params[idx], bool):
                    raise MalformedMachine(f"op {name}@{op.offset} has no jump parameter at {idx}: {params!r}")
                target_off = params[idx]
                if target_off not in by_offset:
                    raise MalformedMachine(f"op {name}@{op.offset} jumps to unknown offset {target_off}")
                target = by_offset[target_off]
                rest = tuple(canon_param(p) for j, p in enumerate(params) if j != idx)
                if name == "Jump":
                    lts[nid] = ("tau", target)
                else:
                    lts[nid] = ("test", (name, rest), target, nxt)
            elif name in STOP_OPS:
                lts[nid] = ("stop", name)
            else:
                lts[nid] = ("op", (name, tuple(canon_param(p) for p in op.params)), nxt)
    return lts, entries


def skip_tau(lts, node, side, chain=None):
    """Follow silent steps; if `chain` is a list, the silent nodes passed are appended to it."""
    seen = None
    while True:
        n = lts[node]
        if n[0] != "tau":
            return node
        if chain is not None:
            chain.append(node)
        if seen is None:
            seen = {node}
        node = n[1]
        if node in seen:
            raise Divergence(side, node)
        seen.add(node)


class Mismatch:
    def __init__(self, trace, a, b, what):
        self.trace = trace  # list of observable steps leading here
        self.a = a
        self.b = b
        self.what = what

    def as_dict(self):
        return {"trace": self.trace, "left": repr(self.a), "right": repr(self.b), "what": self.what}


def label_json(label):
    return [label[0], [list(p) if not isinstance(p, (int, str)) else p for p in label[1]]]


def default_label_eq(x, y):
    """Equality of labels; a left-hand name 'A|B' accepts either opcode name (documented allowances)."""
    if x == y:
        return True
    if "|" in x[0]:
        return y[0] in x[0].split("|") and x[1] == y[1]
    return False


def product(lts_a, a0, lts_b, b0, label_eq=None, tau_chains=None):
    """Exhaustive breadth-first exploration of the synchronous product.
    If tau_chains is a list, the pair (silent nodes passed on the left, on the right) of every transition is appended.

    Returns (ok, states, transitions, relation, mismatch).  relation is the set of pairs of
    observable nodes reached together.  mismatch (if any) carries the shortest distinguishing trace.
    """
    if label_eq is None:
        label_eq = default_label_eq
    try:
        ca = [] if tau_chains is not None else None
        cb = [] if tau_chains is not None else None
        a = skip_tau(lts_a, a0, "left", ca)
        b = skip_tau(lts_b, b0, "right", cb)
        if tau_chains is not None:
            tau_chains.append((ca, cb))
    except Divergence as d:
        return False, 1, 0, set(), Mismatch([], a0, b0, f"divergence: {d}")
    start = (a, b)
    parent = {start: None}
    queue = deque([start])
    transitions = 0
    relation = set()

    def trace_of(state):
        steps = []
        while parent[state] is not None:
            state, step = parent[state]
            steps.append(step)
        steps.reverse()
        return steps

    while queue:
        st = queue.popleft()
        a, b = st
        na, nb = lts_a[a], lts_b[b]
        relation.add(st)
        if na[0] != nb[0]:
            return False, len(parent), transitions, relation, Mismatch(
                trace_of(st), na, nb, f"kinds differ: {na[0]} vs {nb[0]}")
        kind = na[0]
        if kind == "stop":
            if na[1] != nb[1]:
                return False, len(parent), transitions, relation, Mismatch(
                    trace_of(st), na, nb, f"stop kinds differ: {na[1]} vs {nb[1]}")
            continue
        if not label_eq(na[1], nb[1]):
            return False, len(parent), transitions, relation, Mismatch(
                trace_of(st), na, nb, "labels differ")
        if kind == "op":
            succs = [((na[2], nb[2]), [kind, label_json(na[1])])]
        else:
            succs = [((na[2], nb[2]), [kind, label_json(na[1]), "taken"]),
                     ((na[3], nb[3]), [kind, label_json(na[1]), "not taken"])]
        for (sa, sb), step in succs:
            transitions += 1
            try:
                ca = [] if tau_chains is not None else None
                cb = [] if tau_chains is not None else None
                sa = skip_tau(lts_a, sa, "left", ca)
                sb = skip_tau(lts_b, sb, "right", cb)
                if tau_chains is not None:
                    tau_chains.append((ca, cb))
            except Divergence as d:
                return False, len(parent), transitions, relation, Mismatch(
                    trace_of(st) + [step], na, nb, f"divergence: {d}")
            nxt = (sa, sb)
            if nxt not in parent:
                parent[nxt] = (st, step)
                queue.append(nxt)
    return True, len(parent), transitions, relation, None


def reachable_stats(lts, entry):
    """(observable nodes reachable, number of tests, has_loop) for the nontriviality rule."""
    seen = set()
    stack = [entry]
    tests = 0
    ops = 0
    while stack:
        n = stack.pop()
        if n in seen:
            continue
        seen.add(n)
        node = lts[n]
        if node[0] == "tau":
            stack.append(node[1])
        elif node[0] == "op":
            ops += 1
            stack.append(node[2])
        elif node[0] == "test":
            tests += 1
            stack.append(node[2])
            stack.append(node[3])
    return ops, tests


def has_silent_cycle(lts, entry):
    """True if some reachable cycle consists of tau steps only."""
    seen = set()
    stack = [entry]
    while stack:
        n = stack.pop()
        if n in seen:
            continue
        seen.add(n)
        node = lts[n]
        if node[0] == "tau":
            # follow tau chain
            chain = {n}
            cur = node[1]
            while lts[cur][0] == "tau":
                if cur in chain:
                    return True
                chain.add(cur)
                cur = lts[cur][1]
            stack.append(cur)
        elif node[0] == "op":
            stack.append(node[2])
        elif node[0] == "test":
            stack.append(node[2])
            stack.append(node[3])
    return False


def machine_wellformed(m, entries):
    """C02's well-formedness on a machine LTS: no reachable path runs past the last op of a routine,
    and no cycle (reachable or not) consists of Jump steps only."""
    for nid, node in m.items():
        if node[0] == "tau":
            seen = {nid}
            cur = node[1]
            while m[cur][0] == "tau":
                if cur in seen:
                    return False
                seen.add(cur)
                cur = m[cur][1]
    seen = set()
    stack = list(entries)
    while stack:
        n = stack.pop()
        if n in seen:
            continue
        seen.add(n)
        if n[0] == "mend":
            return False
        node = m[n]
        if node[0] == "tau":
            stack.append(node[1])
        elif node[0] == "op":
            stack.append(node[2])
        elif node[0] == "test":
            stack.append(node[2])
            stack.append(node[3])
    return True
