"""Reference semantics of ExplorerScript, written from docs/language_spec.rst in the most naive way.

ref_program(program, perf_var) -> RefResult with
    lts, entries[routine index], table[routine index] = (kind, target, coroutine name),
    origin[node id] = AST node that produced the observable node.
No optimisation of any kind is performed: one node per statement, explicit edges.
"""
from __future__ import annotations

from . import esast as A
from .esast import OPERATOR_VALUE, ASSIGN_OP_VALUE


class RefError(Exception):
    """The program is statically invalid (outside every quantifier)."""


class RefResult:
    def __init__(self):
        self.lts = {}
        self.entries = []
        self.table = []
        self.origin = {}
        self.exp = {}         # node id -> expansion record (dict) for nodes created inside a macro expansion
        self.expansions = []  # all expansion records: dict(id, macro, call, parent, args)


CTX_OP = {"actor": "lives", "object": "object", "performer": "performer"}
SCN_BRANCH = {"==": "BranchScenarioNow", "<=": "BranchScenarioNowBefore", "<": "BranchScenarioBefore",
              ">=": "BranchScenarioNowAfter", ">": "BranchScenarioAfter"}
SPECIAL_BRANCH = {"debug": "BranchDebug", "edit": "BranchEdit", "variation": "BranchVariation"}


def cond_label(c, perf_var):
    """(opcode, params) the spec assigns to an if-condition (EoS Compiler admonitions)."""
    k, d = c.kind, c.data
    if k == "op":
        var, oper, rk, rhs = d
        if rk == "valueof":
            return ("BranchVariable", (var, ("i", OPERATOR_VALUE[oper]), rhs))
        if oper == "==":
            return ("Branch", (var, rhs))
        return ("BranchValue", (var, ("i", OPERATOR_VALUE[oper]), rhs))
    if k == "bit":
        neg, var, idx = d
        if var == ("c", perf_var):
            return ("BranchPerformance", (("i", idx), ("i", 0 if neg else 1)))
        if neg:
            raise RefError("not on ordinary bit test")
        return ("BranchBit", (var, ("i", idx)))
    if k == "special":
        neg, word = d
        return (SPECIAL_BRANCH[word], (("i", 0 if neg else 1),))
    if k == "scn":
        var, oper, a, b = d
        if oper not in SCN_BRANCH:
            raise RefError("scn operator")
        return (SCN_BRANCH[oper], (var, ("i", a), ("i", b)))
    if k == "opcall":
        name, args = d
        return (name, tuple(args))
    raise ValueError(k)


def switch_header_label(h):
    k, d = h.kind, h.data
    if k == "var":
        return ("Switch", (d[0],))
    if k == "scn":
        if d[1] == 0:
            return ("SwitchScenario", (d[0],))
        if d[1] == 1:
            return ("SwitchScenarioLevel", (d[0],))
        raise RefError("scn index")
    if k == "random":
        return ("SwitchRandom", (d[0],))
    if k == "dmode":
        return ("SwitchDungeonMode", (d[0],))
    if k == "sector":
        return ("SwitchSector", ())
    if k == "opcall":
        return (d[0], tuple(d[1]))
    raise ValueError(k)


def case_header_label(h):
    k, d = h.kind, h.data
    if k == "val":
        return ("Case", (d[0],))
    if k == "op":
        oper, rk, rhs = d
        if rk == "valueof":
            return ("CaseVariable", (("i", OPERATOR_VALUE[oper]), rhs))
        return ("CaseValue", (("i", OPERATOR_VALUE[oper]), rhs))
    if k == "menu":
        return ("CaseMenu", (d[0],))
    if k == "menu2":
        return ("CaseMenu2", (d[0],))
    raise ValueError(k)


def assign_label(a, perf_var):
    k, d = a.kind, a.data
    if k == "reg":
        var, idx, aop, rk, rhs = d
        if idx is not None:
            if rk == "valueof":
                raise RefError("value() with index")
            if var == ("c", perf_var):
                return ("flag_SetPerformance", (("i", idx), rhs))
            return ("flag_CalcBit", (var, ("i", idx), rhs))
        if rk == "valueof":
            return ("flag_CalcVariable", (var, ("i", ASSIGN_OP_VALUE[aop]), rhs))
        if aop == "=":
            return ("flag_Set", (var, rhs))
        return ("flag_CalcValue", (var, ("i", ASSIGN_OP_VALUE[aop]), rhs))
    if k == "clear":
        return ("flag_Clear", (d[0],))
    if k == "init":
        return ("flag_Initial", (d[0],))
    if k == "reset_dr":
        return ("flag_ResetDungeonResult", ())
    if k == "reset_scn":
        return ("flag_ResetScenario", (d[0],))
    if k == "advlog":
        return ("flag_SetAdventureLog", (d[0],))
    if k == "dmode":
        return ("flag_SetDungeonMode", (d[0], d[1]))
    if k == "scn":
        return ("flag_SetScenario", (d[0], ("i", d[1]), ("i", d[2])))
    raise ValueError(k)


class _Builder:
    def __init__(self, perf_var, macros):
        self.res = RefResult()
        self.lts = self.res.lts
        self.perf_var = perf_var
        self.macros = macros  # name -> A.Macro
        self.n = 0
        self.labels = {}  # (scope, name) -> node id (tau placeholder)
        self.defined = set()
        self.cur_exp = None

    def new(self, node, origin=None):
        self.n += 1
        nid = ("r", self.n)
        self.lts[nid] = node
        if origin is not None:
            self.res.origin[nid] = origin
        if self.cur_exp is not None:
            self.res.exp[nid] = self.cur_exp
        return nid

    def label_node(self, scope, name):
        key = (scope, name)
        if key not in self.labels:
            self.n += 1
            nid = ("rl", self.n)
            self.lts[nid] = None  # patched when defined
            self.labels[key] = nid
        return self.labels[key]

    # ctx: dict(scope, loop_continue, loop_break, case_break, macro_end, subst, stack)
    def seq(self, stmts, k, ctx):
        """Entry node of the statement list whose continuation is k."""
        for s in reversed(stmts):
            k = self.stmt(s, k, ctx)
        return k

    def subst(self, v, ctx):
        sub = ctx["subst"]
        if sub and v[0] == "c" and v[1] in sub:
            return sub[v[1]]
        return v

    def substs(self, vs, ctx):
        return tuple(self.subst(v, ctx) for v in vs)

    def lab(self, label, ctx):
        return (label[0], self.substs(label[1], ctx))

    def simple(self, s, k, ctx, origin=None):
        o = origin or s
        if isinstance(s, A.Op):
            n = self.new(("op", (s.name, self.substs(s.args, ctx)), k), o)
            if s.ctx:
                n = self.new(("op", (CTX_OP[s.ctx[0]], (self.subst(s.ctx[1], ctx),)), n), o)
            return n
        if isinstance(s, A.Assign):
            return self.new(("op", self.lab(assign_label(s, self.perf_var), ctx), k), o)
        if isinstance(s, A.Jump):
            return self.new(("tau", self.label_node(ctx["scope"], s.name)), o)
        if isinstance(s, A.Call):
            return self.new(("test", ("Call", ()), self.label_node(ctx["scope"], s.name), k), o)
        if isinstance(s, A.Ctrl):
            kind = s.kind
            if kind == "return":
                if ctx["macro_end"] is not None:
                    return self.new(("tau", ctx["macro_end"]), o)
                return self.new(("stop", "Return"), o)
            if kind == "end":
                return self.new(("stop", "End"), o)
            if kind == "hold":
                return self.new(("stop", "Hold"), o)
            if kind == "continue":
                if ctx["loop_continue"] is None:
                    raise RefError("continue outside loop")
                return self.new(("tau", ctx["loop_continue"]), o)
            if kind == "break_loop":
                if ctx["loop_break"] is None:
                    raise RefError("break_loop outside loop")
                return self.new(("tau", ctx["loop_break"]), o)
            if kind == "break":
                if ctx["case_break"] is None:
                    raise RefError("break outside case")
                return self.new(("tau", ctx["case_break"]), o)
            raise ValueError(kind)
        raise ValueError(s)

    def tests(self, conds, on_taken, on_none, ctx, origin_of=None):
        """Chain of tests left to right; first taken wins."""
        k = on_none
        for c in reversed(conds):
            k = self.new(("test", self.lab(cond_label(c, self.perf_var), ctx), on_taken, k), c)
        return k

    def stmt(self, s, k, ctx):
        if isinstance(s, (A.Op, A.Assign, A.Jump, A.Call, A.Ctrl)):
            return self.simple(s, k, ctx)
        if isinstance(s, A.Label):
            key = (ctx["scope"], s.name)
            if key in self.defined:
                raise RefError(f"label {s.name} defined twice")
            self.defined.add(key)
            nid = self.label_node(ctx["scope"], s.name)
            self.lts[nid] = ("tau", k)
            return nid
        if isinstance(s, A.With):
            if isinstance(s.stmt, A.Label):
                raise RefError("label in with")
            if isinstance(s.stmt, A.Op) and s.stmt.ctx:
                raise RefError("inline ctx in with")
            inner = self.simple(s.stmt, k, ctx, origin=s.stmt)
            return self.new(("op", (CTX_OP[s.kind], (self.subst(s.target, ctx),)), inner), s)
        if isinstance(s, A.If):
            nxt = self.seq(s.else_body, k, ctx) if s.else_body is not None else k
            for b in reversed(s.branches):
                body = self.seq(b.body, k, ctx)
                if b.neg:
                    nxt = self.tests(b.conds, nxt, body, ctx)
                else:
                    nxt = self.tests(b.conds, body, nxt, ctx)
            return nxt
        if isinstance(s, A.Switch):
            if s.items and not s.items[-1].body:
                raise RefError("switch ends in empty case")
            if sum(1 for it in s.items if it.header is None) > 1:
                raise RefError("two defaults")
            c2 = dict(ctx)
            c2["case_break"] = k
            # bodies, last to first, with fall-through
            entry_after = k
            body_entry = [None] * len(s.items)
            for i in range(len(s.items) - 1, -1, -1):
                it = s.items[i]
                if it.body:
                    entry_after = self.seq(it.body, entry_after, c2)
                body_entry[i] = entry_after
            none = k
            for i, it in enumerate(s.items):
                if it.header is None:
                    none = body_entry[i]
            nxt = none
            for i in range(len(s.items) - 1, -1, -1):
                it = s.items[i]
                if it.header is not None:
                    cl = self.lab(case_header_label(it.header), ctx)
                    if cl[0] == "CaseValue" and s.header.kind == "scn" and s.header.data[1] == 0:
                        # the compiler deliberately emits CaseScenario here ("more consistent with the game");
                        # the spec says CaseValue: either is accepted (DESIGN.md 1.2)
                        cl = ("CaseValue|CaseScenario", cl[1])
                    nxt = self.new(("test", cl, body_entry[i], nxt), it.header)
            hl = switch_header_label(s.header)
            n = self.new(("op", self.lab(hl, ctx), nxt), s.header)
            if s.header.kind == "opcall" and len(s.header.data) > 2 and s.header.data[2]:
                hc = s.header.data[2]
                n = self.new(("op", (CTX_OP[hc[0]], (self.subst(hc[1], ctx),)), n), s.header)
            return n
        if isinstance(s, A.MsgSwitch):
            nxt = k
            if s.default is not None:
                nxt = self.new(("op", ("DefaultText", (self.subst(s.default, ctx),)), nxt), (s, len(s.cases)))
            for i in range(len(s.cases) - 1, -1, -1):
                v, text = s.cases[i]
                nxt = self.new(("op", ("CaseText", (self.subst(v, ctx), self.subst(text, ctx))), nxt), (s, i))
            return self.new(("op", (s.kind, (self.subst(s.value, ctx),)), nxt), s)
        if isinstance(s, A.Forever):
            start = self.new(None)
            c2 = dict(ctx)
            c2["loop_continue"] = start
            c2["loop_break"] = k
            c2["case_break"] = ctx["case_break"]
            body = self.seq(s.body, start, c2)
            self.lts[start] = ("tau", body)
            return start
        if isinstance(s, A.While):
            test = self.new(None, s.cond)
            c2 = dict(ctx)
            c2["loop_continue"] = test
            c2["loop_break"] = k
            body = self.seq(s.body, test, c2)
            lab = self.lab(cond_label(s.cond, self.perf_var), ctx)
            self.lts[test] = ("test", lab, k, body) if s.neg else ("test", lab, body, k)
            return test
        if isinstance(s, A.For):
            test = self.new(None, s.cond)
            c2 = dict(ctx)
            c2["loop_break"] = k
            incr = self.for_part(s.incr, test, ctx)
            c2["loop_continue"] = incr
            body = self.seq(s.body, incr, c2)
            lab = self.lab(cond_label(s.cond, self.perf_var), ctx)
            self.lts[test] = ("test", lab, body, k)
            return self.for_part(s.init, test, ctx)
        if isinstance(s, A.MacroCall):
            return self.macro_call(s, k, ctx)
        raise ValueError(s)

    def for_part(self, st, k, ctx):
        if isinstance(st, A.Label):
            return self.stmt(st, k, ctx)
        return self.simple(st, k, ctx)

    def macro_call(self, s, k, ctx):
        if s.name not in self.macros:
            raise RefError(f"unknown macro {s.name}")
        if s.name in ctx["stack"]:
            raise RefError("recursive macro")
        m = self.macros[s.name]
        if len(s.args) < len(m.params):
            raise RefError("too few macro arguments")
        args = self.substs(s.args, ctx)
        self.n += 1
        c2 = {
            "scope": ("macro", self.n),
            "loop_continue": None, "loop_break": None, "case_break": None,
            "macro_end": k,
            "subst": dict(zip(m.params, args)),
            "stack": ctx["stack"] + (s.name,),
        }
        rec = {"id": len(self.res.expansions), "macro": m, "call": s, "parent": self.cur_exp, "args": args}
        self.res.expansions.append(rec)
        saved = self.cur_exp
        self.cur_exp = rec
        try:
            entry = self.seq(m.body, k, c2)
        finally:
            self.cur_exp = saved
        return self.new(("tau", entry), s)


def ref_program(program, perf_var="$PERFORMANCE_PROGRESS_LIST", extra_macros=None):
    """Build the reference LTS of all routines of a Program (macros inlined at source level)."""
    macros = dict(extra_macros or {})
    for m in program.macros:
        macros[m.name] = m
    b = _Builder(perf_var, macros)
    res = b.res
    # routine slots indexed by id
    slots = {}
    next_coro = 0
    prev = -1
    for r in program.routines:
        if r.kind == "coro":
            rid = prev + 1
        else:
            rid = r.rid
        prev = rid
        if rid in slots:
            raise RefError("duplicate routine id")
        slots[rid] = r
    if slots and sorted(slots) != list(range(len(slots))):
        raise RefError("routine ids are not 0..n-1")
    order = [slots[i] for i in range(len(slots))]
    # all routines share the file-global label scope
    for i, r in enumerate(order):
        ctx = {"scope": "file", "loop_continue": None, "loop_break": None, "case_break": None,
               "macro_end": None, "subst": None, "stack": ()}
        end = b.new(("stop", "Return"))
        if r.body is None:
            if i == 0:
                raise RefError("alias without previous routine")
            entry = end  # alias: no ops of its own
        else:
            entry = b.seq(r.body, end, ctx)
        res.entries.append(entry)
        if r.kind == "coro":
            res.table.append(("COROUTINE", ("i", 0), r.name))
        elif r.kind == "def":
            res.table.append(("GENERIC", ("i", 0), None))
        else:
            res.table.append((r.target_kind.upper(), r.target, None))
    for key, nid in b.labels.items():
        if b.lts[nid] is None:
            raise RefError(f"label {key[1]} is used but never defined")
    return res
