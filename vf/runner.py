"""Fork pool with watchdog, evidence writer, known-findings matcher, replay files.

A check supplies
    make_cases()            -> deterministic iterator of (case_id, case); run inside every worker,
                               worker w handles the cases with index % nworkers == w
    run_case(case_id, case) -> dict(outcome=str, nt=<hashable or None>, states=int, transitions=int,
                                    viol=None | dict(kind=str, detail=json-able) | list of those,
                                    sample=json-able | None)
Termination is part of every oracle: a case that exceeds `timeout` seconds of wall clock gets its
worker killed, is re-run alone once to confirm, and is then recorded with kind 'hang'.
"""
from __future__ import annotations

import hashlib
import itertools
import json
import mmap
import os
import pickle
import select
import signal
import struct
import sys
import time

VERIF = os.path.dirname(os.path.dirname(os.path.abspath(__file__)))
# (the two overrides exist for development-time runs against scratch copies; registered commands never set them)
EVIDENCE_DIR = os.environ.get("VERIF_EVIDENCE_DIR") or os.path.join(VERIF, "evidence")
REPLAY_DIR = os.environ.get("VERIF_REPLAY_DIR") or os.path.join(VERIF, "replays")
KNOWN_FILE = os.path.join(VERIF, "known_findings.json")
MAX_REPORTED = 12
ROTATIONS = 4
GIVEN_SEED = None


def case_hash(case_id):
    return hashlib.sha1(repr(case_id).encode()).hexdigest()[:16]


def env_seed():
    try:
        return int(os.environ.get("VERIF_SEED", "0"))
    except ValueError:
        return 0


def ncores():
    try:
        return max(1, min(16, len(os.sched_getaffinity(0))))
    except Exception:
        return 8


def quiet():
    """Silence logging / warnings / fd 2 in a worker (igraph and ANTLR write to stderr directly)."""
    import logging
    import warnings
    logging.disable(logging.CRITICAL)
    warnings.simplefilter("ignore")
    try:
        devnull = os.open(os.devnull, os.O_WRONLY)
        os.dup2(devnull, 2)
        os.close(devnull)
    except OSError:
        pass


class _Worker:
    def __init__(self, wid, pid, rfd):
        self.wid = wid
        self.pid = pid
        self.rfd = rfd
        self.buf = b""
        self.done = False
        self.flushed_upto = -1  # last case index whose results have been received


def _send(fd, obj):
    data = pickle.dumps(obj, protocol=pickle.HIGHEST_PROTOCOL)
    os.write(fd, struct.pack("<I", len(data)))
    off = 0
    while off < len(data):
        off += os.write(fd, data[off:off + 65536])


def _worker_main(wid, nworkers, wfd, shm, make_cases, run_case, init, start_index, skip, flush_every):
    quiet()
    if init is not None:
        init()
    acc = _new_acc()
    last_flush = time.time()
    last_idx = start_index - 1
    slot = wid * 16
    only = os.environ.get("VERIF_ONLY_HASH")
    try:
        it = make_cases()
        for idx, (cid, case) in enumerate(it):
            if idx % nworkers != wid or idx < start_index:
                continue
            if idx in skip:
                continue
            if only and case_hash(cid) != only:
                continue
            shm[slot:slot + 16] = struct.pack("<qd", idx, time.time())
            try:
                res = run_case(cid, case)
            except Exception as e:  # harness error: never a VIOLATION
                import traceback
                res = {"outcome": "harness-error", "harness_error": f"{type(e).__name__}: {e}\n{traceback.format_exc()[-1500:]}"}
            _accumulate(acc, cid, res)
            last_idx = idx
            now = time.time()
            if now - last_flush > flush_every:
                shm[slot:slot + 16] = struct.pack("<qd", -1, now)
                _send(wfd, ("part", last_idx, acc))
                acc = _new_acc()
                last_flush = now
        shm[slot:slot + 16] = struct.pack("<qd", -1, time.time())
        _send(wfd, ("part", last_idx, acc))
        _send(wfd, ("done",))
    except BaseException as e:
        import traceback
        try:
            _send(wfd, ("crash", f"{type(e).__name__}: {e}\n{traceback.format_exc()[-2000:]}"))
        except Exception:
            pass
    finally:
        os._exit(0)


def _new_acc():
    return {"evaluations": 0, "nt": set(), "nt_extra": 0, "states": 0, "transitions": 0, "outcomes": {}, "viols": [],
            "samples": [], "harness_errors": [], "extra": {}}


def _accumulate(acc, cid, res):
    acc["evaluations"] += res.get("evals", 1)
    acc["nt_extra"] += res.get("nt_count", 0)
    nt = res.get("nt")
    if nt is not None:
        acc["nt"].add(hashlib.sha1(repr(nt).encode()).digest()[:8])
    acc["states"] += res.get("states", 0)
    acc["transitions"] += res.get("transitions", 0)
    oc = res.get("outcome", "ok")
    acc["outcomes"][oc] = acc["outcomes"].get(oc, 0) + 1
    v = res.get("viol")
    if v:
        if isinstance(v, dict):
            v = [v]
        for one in v:
            one = dict(one)
            one["case_hash"] = case_hash(cid)
            one.setdefault("case_id", repr(cid)[:400])
            acc["viols"].append(one)
    s = res.get("sample")
    if s is not None and len(acc["samples"]) < 3:
        acc["samples"].append(s)
    if "harness_error" in res:
        acc["harness_errors"].append({"case": repr(cid)[:300], "error": res["harness_error"]})
    for k, val in (res.get("extra") or {}).items():
        acc["extra"][k] = acc["extra"].get(k, 0) + val


def _merge(total, acc):
    total["evaluations"] += acc["evaluations"]
    total["nt_extra"] += acc.get("nt_extra", 0)
    total["nt"] |= acc["nt"]
    total["states"] += acc["states"]
    total["transitions"] += acc["transitions"]
    for k, v in acc["outcomes"].items():
        total["outcomes"][k] = total["outcomes"].get(k, 0) + v
    total["viols"].extend(acc["viols"])
    for s in acc["samples"]:
        if len(total["samples"]) < 6:
            total["samples"].append(s)
    total["harness_errors"].extend(acc["harness_errors"])
    for k, v in acc["extra"].items():
        total["extra"][k] = total["extra"].get(k, 0) + v


def explore(make_cases, run_case, init=None, timeout=20.0, nworkers=None, flush_every=0.5, confirm_hangs=True,
            max_hangs=40):
    """Run all cases; returns the merged accumulator (with 'hangs' folded into viols as kind 'hang')."""
    nworkers = nworkers or ncores()
    shm = mmap.mmap(-1, 16 * nworkers)
    for w in range(nworkers):
        shm[w * 16:w * 16 + 16] = struct.pack("<qd", -1, time.time())
    total = _new_acc()
    total["hang_cases"] = []
    workers = {}

    def spawn(wid, start_index, skip):
        r, w = os.pipe()
        pid = os.fork()
        if pid == 0:
            os.close(r)
            for other in workers.values():
                try:
                    os.close(other.rfd)
                except OSError:
                    pass
            _worker_main(wid, nworkers, w, shm, make_cases, run_case, init, start_index, skip, flush_every)
            os._exit(0)
        os.close(w)
        shm[wid * 16:wid * 16 + 16] = struct.pack("<qd", -1, time.time())
        wk = _Worker(wid, pid, r)
        wk.flushed_upto = start_index - 1
        workers[wid] = wk
        return wk

    skips = {w: set() for w in range(nworkers)}
    for w in range(nworkers):
        spawn(w, 0, frozenset())
    crashed = []
    while any(not wk.done for wk in workers.values()):
        live = [wk for wk in workers.values() if not wk.done]
        rl, _, _ = select.select([wk.rfd for wk in live], [], [], 0.25)
        for wk in live:
            if wk.rfd in rl:
                chunk = os.read(wk.rfd, 1 << 20)
                if not chunk:
                    # EOF without 'done': worker died
                    if not wk.done:
                        wk.done = True
                        crashed.append((wk.wid, "worker exited unexpectedly (EOF)"))
                    continue
                wk.buf += chunk
                while len(wk.buf) >= 4:
                    (ln,) = struct.unpack("<I", wk.buf[:4])
                    if len(wk.buf) < 4 + ln:
                        break
                    msg = pickle.loads(wk.buf[4:4 + ln])
                    wk.buf = wk.buf[4 + ln:]
                    if msg[0] == "part":
                        wk.flushed_upto = max(wk.flushed_upto, msg[1])
                        _merge(total, msg[2])
                    elif msg[0] == "done":
                        wk.done = True
                    elif msg[0] == "crash":
                        wk.done = True
                        crashed.append((wk.wid, msg[1]))
        now = time.time()
        for wk in list(workers.values()):
            if wk.done:
                continue
            idx, t0 = struct.unpack("<qd", shm[wk.wid * 16:wk.wid * 16 + 16])
            if idx >= 0 and now - t0 > timeout:
                # hang: kill, restart after the last flushed case, skipping the hung one
                try:
                    os.kill(wk.pid, signal.SIGKILL)
                except ProcessLookupError:
                    pass
                try:
                    os.waitpid(wk.pid, 0)
                except ChildProcessError:
                    pass
                os.close(wk.rfd)
                total["hang_cases"].append(idx)
                skips[wk.wid].add(idx)
                if len(total["hang_cases"]) > max_hangs:
                    # too many hangs to be worth waiting for: stop here, the run is reported as capped
                    total["aborted"] = f"more than {max_hangs} hangs; exploration stopped early"
                    wk.done = True
                    for other in workers.values():
                        if not other.done:
                            try:
                                os.kill(other.pid, signal.SIGKILL)
                            except ProcessLookupError:
                                pass
                            other.done = True
                    break
                spawn(wk.wid, wk.flushed_upto + 1, frozenset(skips[wk.wid]))
    for wk in workers.values():
        try:
            if total.get("aborted"):
                try:
                    os.kill(wk.pid, signal.SIGKILL)
                except ProcessLookupError:
                    pass
            os.waitpid(wk.pid, 0)
        except ChildProcessError:
            pass
        try:
            os.close(wk.rfd)
        except OSError:
            pass
    total["crashed"] = crashed
    # resolve hung cases to their ids (and confirm each alone)
    if total["hang_cases"]:
        wanted = set(total["hang_cases"])
        found = {}
        for idx, (cid, case) in enumerate(make_cases()):
            if idx in wanted:
                found[idx] = (cid, case)
                if len(found) == len(wanted):
                    break
        order = sorted(found)
        results = {}
        if confirm_hangs:
            results = _confirm_hangs(run_case, init, [(idx,) + found[idx] for idx in order], timeout, nworkers)
        for idx in order:
            cid, case = found[idx]
            confirmed = results.get(idx, True)
            total["evaluations"] += 1
            if confirmed is True:
                total["outcomes"]["hang"] = total["outcomes"].get("hang", 0) + 1
                total["viols"].append({"kind": "hang", "detail": f"no answer within {timeout}s (confirmed in isolation)",
                                       "case_hash": case_hash(cid), "case_id": repr(cid)[:400]})
            else:
                # answered when run alone: fold its real result in
                _accumulate(total, cid, confirmed)
    return total


def _confirm_hangs(run_case, init, items, timeout, nworkers):
    """Re-run each (idx, cid, case) alone in a fresh fork (up to nworkers at a time).
    Result per idx: True if it hangs again, else its result dict."""
    results = {}
    pending = list(items)
    running = {}  # rfd -> (idx, pid, deadline, buf)
    while pending or running:
        while pending and len(running) < nworkers:
            idx, cid, case = pending.pop(0)
            r, w = os.pipe()
            pid = os.fork()
            if pid == 0:
                os.close(r)
                quiet()
                try:
                    if init is not None:
                        init()
                    res = run_case(cid, case)
                    _send(w, res)
                except BaseException as e:
                    try:
                        _send(w, {"outcome": "harness-error", "harness_error": f"{type(e).__name__}: {e}"})
                    except Exception:
                        pass
                os._exit(0)
            os.close(w)
            running[r] = [idx, pid, time.time() + timeout, b""]
        rl, _, _ = select.select(list(running), [], [], 0.25)
        now = time.time()
        for r in list(running):
            idx, pid, deadline, buf = running[r]
            finished = False
            if r in rl:
                chunk = os.read(r, 1 << 20)
                if chunk:
                    buf += chunk
                    running[r][3] = buf
                    if len(buf) >= 4:
                        (ln,) = struct.unpack("<I", buf[:4])
                        if len(buf) >= 4 + ln:
                            results[idx] = pickle.loads(buf[4:4 + ln])
                            finished = True
                else:
                    results.setdefault(idx, True)
                    finished = True
            if not finished and now > deadline:
                results[idx] = True
                finished = True
            if finished:
                try:
                    os.kill(pid, signal.SIGKILL)
                except ProcessLookupError:
                    pass
                try:
                    os.waitpid(pid, 0)
                except ChildProcessError:
                    pass
                os.close(r)
                del running[r]
    return results


# ------------------------------------------------------------------ known findings
def load_known():
    if not os.path.exists(KNOWN_FILE):
        return {"open": [], "fixed": []}
    with open(KNOWN_FILE) as f:
        return json.load(f)


def known_index(prop_id):
    """(case_hash, kind) -> finding id, for open findings of this property."""
    idx = {}
    names = {}
    for ent in load_known().get("open", []):
        if ent["property"] != prop_id:
            continue
        names[ent["id"]] = ent["what"]
        cases = ent.get("cases", [])
        if "cases_file" in ent and os.path.exists(os.path.join(VERIF, ent["cases_file"])):
            with open(os.path.join(VERIF, ent["cases_file"])) as f:
                cases = cases + [ln.strip() for ln in f if ln.strip()]
        for c in cases:
            h, _, kind = c.partition(" ")
            idx[(h, kind)] = ent["id"]
    return idx, names


def kind_key(kind):
    """Failure kind as used for matching (first word-ish, stable)."""
    return kind.replace(" ", "_")


# ------------------------------------------------------------------ top level driver
def finish(prop_id, level, tier, seed, total, t0, rule, assumptions, bounds, exhaustive=True, extra=None,
           traces_validated=None, replay_payload=None):
    """Match violations against known findings, write replays + evidence, print lines, return exit code."""
    os.makedirs(EVIDENCE_DIR, exist_ok=True)
    idx, names = known_index(prop_id)
    known_hits = {}
    unknown = []
    for v in total["viols"]:
        key = (v["case_hash"], kind_key(v["kind"]))
        if key in idx:
            known_hits.setdefault(idx[key], []).append(v)
        else:
            unknown.append(v)
    dump = os.environ.get("VERIF_DUMP")
    if dump:
        with open(dump, "w") as f:
            for v in total["viols"]:
                f.write(json.dumps(v, default=repr) + "\n")
    harness_broken = bool(total.get("crashed")) or bool(total["harness_errors"])
    lines = []
    for fid, vs in sorted(known_hits.items()):
        lines.append(f"KNOWN-FINDING: property={prop_id} {fid}: {names[fid]} ({len(vs)} cases in this run)")
    rc = 0
    if unknown:
        rc = 1
        os.makedirs(os.path.join(REPLAY_DIR, prop_id), exist_ok=True)
        by_kind = {}
        for v in unknown:
            by_kind.setdefault(kind_key(v["kind"]), []).append(v)
        reported = 0
        for kind, vs in sorted(by_kind.items()):
            for v in vs[:max(1, MAX_REPORTED // max(1, len(by_kind)))]:
                path = os.path.join(REPLAY_DIR, prop_id, f"{v['case_hash']}-{kind[:40].replace('/', '_')}.json")
                with open(path, "w") as f:
                    json.dump({"property": prop_id, "tier": tier, "seed": seed, **v}, f, indent=1, default=repr)
                lines.append(f"VIOLATION property={prop_id} replay={path}")
                reported += 1
        if len(unknown) > reported:
            lines.append(f"# {len(unknown) - reported} further violations of {prop_id} not written out "
                         f"({', '.join(f'{k}:{len(v)}' for k, v in sorted(by_kind.items()))})")
    if harness_broken:
        rc = 2
        for wid, msg in total.get("crashed", []):
            lines.append(f"HARNESS-ERROR worker {wid}: {msg[:500]}")
        for he in total["harness_errors"][:5]:
            lines.append(f"HARNESS-ERROR case {he['case']}: {he['error'][:800]}")
    wall = time.time() - t0
    coverage = {
        "evaluations": total["evaluations"],
        "distinct_nontrivial": len(total["nt"]) + total.get("nt_extra", 0),
        "rule": rule,
        "samples": total["samples"][:4] or ["(no sample recorded)"],
        "states": total["states"],
        "transitions": total["transitions"],
        "traces_validated_against_impl": total["evaluations"] if traces_validated is None else traces_validated,
        "rotation": seed,
        "exhaustive": bool(exhaustive and not total.get("aborted")),
        "cap_hit": total.get("aborted"),
        "bounds": bounds,
        "outcomes": total["outcomes"],
        "distinct_outcomes": len(total["outcomes"]),
        "known_findings_hit": {k: len(v) for k, v in known_hits.items()},
        "unknown_violations": len(unknown),
        "hangs": len(total.get("hang_cases", [])),
    }
    if total["extra"]:
        coverage["counters"] = total["extra"]
    if extra:
        coverage.update(extra)
    ev = {
        "property_id": prop_id,
        "tier": tier,
        "seed": seed if GIVEN_SEED is None else GIVEN_SEED,
        "level": level,
        "coverage": coverage,
        "assumptions": assumptions,
        "wall_s": round(wall, 2),
        "violations": len(unknown),
    }
    if not os.environ.get("VERIF_ONLY_HASH"):
        with open(os.path.join(EVIDENCE_DIR, f"{prop_id}.json"), "w") as f:
            json.dump(ev, f, indent=1, default=repr)
    for ln in lines:
        print(ln)
    print(f"{prop_id} tier={tier} seed={seed} evaluations={coverage['evaluations']} "
          f"distinct_nontrivial={coverage['distinct_nontrivial']} states={coverage['states']} "
          f"transitions={coverage['transitions']} outcomes={coverage['outcomes']} "
          f"known={coverage['known_findings_hit']} violations={len(unknown)} wall={wall:.1f}s")
    sys.stdout.flush()
    return rc


def chain(*iters):
    return itertools.chain(*iters)
