"""Shared analysis of one decompiler execution, used by C02 (behaviour), C06 (always answers / exact fallback),
C09 (decompile-time source map) and C11."""
from __future__ import annotations

import copy

from . import esast as A
from . import impl, lts, reader, refsem

MARKER = "//?: is-ssb-script"
DMODE_EQ = {n: ("c", name) for n, name in enumerate(impl.DMODE)}


def param_eq(op_name, idx, a, b):
    """Equality of one parameter incl. the documented dungeon-mode allowance (number 0..3 == configured constant)."""
    if a == b:
        return True
    if (op_name == "flag_SetDungeonMode" and idx == 1) or (op_name == "Case" and idx == 0):
        if a[0] == "i" and DMODE_EQ.get(a[1]) == b:
            return True
        if b[0] == "i" and DMODE_EQ.get(b[1]) == a:
            return True
    return False


def label_eq(x, y):
    names = x[0].split("|") if "|" in x[0] else [x[0]]
    names_y = y[0].split("|") if "|" in y[0] else [y[0]]
    if not set(names) & set(names_y):
        return False
    if len(x[1]) != len(y[1]):
        return False
    n = y[0] if "|" not in y[0] else names[0]
    return all(param_eq(n, i, a, b) for i, (a, b) in enumerate(zip(x[1], y[1])))


def relax_scn_cases(m, rops):
    """DESIGN.md 6: operator cases under a `scn(..)[0]` switch may be CaseValue or CaseScenario (the language has one spelling,
    `case > 0:`, and the compiler deliberately emits CaseScenario). The case ops that directly follow a SwitchScenario op
    get the label 'CaseValue|CaseScenario' on the input side of the comparison with the recompiled routines."""
    out = None
    for r, ops in enumerate(rops):
        in_scn = False
        for i, op in enumerate(ops):
            name = op.op_code.name
            if name == "SwitchScenario":
                in_scn = True
            elif in_scn and name in lts.CASE_OPS:
                if name in ("CaseValue", "CaseScenario"):
                    node = m[("m", r, i)]
                    if node[0] == "test":
                        if out is None:
                            out = dict(m)
                        out[("m", r, i)] = ("test", ("CaseValue|CaseScenario", node[1][1]), node[2], node[3])
            else:
                in_scn = False
    return out if out is not None else m


def describe(rops):
    return [[f"{op.offset}: {op.op_code.name} {[lts.canon_param(p) for p in op.params]!r}" for op in r] for r in rops]


def snapshot(rops, infos, coros):
    """Structural snapshot of a routine set (ignoring `indent`), for 'input unchanged' checks."""
    return ([[(type(op).__name__, op.offset, op.op_code.name, tuple(lts.canon_param(p) for p in op.params)) for op in r]
             for r in rops], impl.routine_table(infos, coros))


class Analysis:
    """Everything observed for one input."""

    def __init__(self):
        self.text = None
        self.source_map = None
        self.exception = None      # (type name, message, where)
        self.fallback = False
        self.c02 = []              # violations
        self.c06 = []
        self.c09 = []
        self.states = 0
        self.transitions = 0
        self.comp2 = None
        self.relation = set()
        self.input_changed = None


def input_features(rops):
    """Structural predicates of an input routine set, used to group findings by root cause."""
    flat = [op for r in rops for op in r]
    pos = {op.offset: i for i, op in enumerate(flat)}
    last = set()
    n = 0
    for r in rops:
        n += len(r)
        if r:
            last.add(n - 1)
    adj = {i: [] for i in range(len(flat))}
    ctx_before_jump = False
    ctx_before_block = False
    targets = set()
    for op in flat:
        if op.op_code.name in lts.JUMP_INDEX:
            targets.add(op.params[lts.JUMP_INDEX[op.op_code.name]])
    entry_jump_targeted = any(r and r[0].op_code.name == "Jump" and r[0].offset in targets for r in rops)
    for i, op in enumerate(flat):
        name = op.op_code.name
        if name in ("lives", "object", "performer") and i + 1 < len(flat) and flat[i + 1].op_code.name == "Jump":
            ctx_before_jump = True
        if name in ("lives", "object", "performer") and i + 1 < len(flat) and (
                flat[i + 1].op_code.name.startswith(("message_Switch", "Switch", "Branch", "Case")) or flat[i + 1].op_code.name in ("lives", "object", "performer")):
            ctx_before_block = True
        if name in ("Return", "End", "Hold"):
            continue
        if name in lts.JUMP_INDEX:
            t = op.params[lts.JUMP_INDEX[name]]
            if t in pos:
                adj[i].append(pos[t])
            if name == "Jump":
                continue
        if i not in last:
            adj[i].append(i + 1)
    color = {}
    cyclic = False
    for s0 in range(len(flat)):
        if s0 in color:
            continue
        stack = [(s0, iter(adj[s0]))]
        color[s0] = 1
        while stack and not cyclic:
            u, it = stack[-1]
            for v in it:
                if color.get(v) == 1:
                    cyclic = True
                    break
                if v not in color:
                    color[v] = 1
                    stack.append((v, iter(adj[v])))
                    break
            else:
                color[u] = 2
                stack.pop()
        if cyclic:
            break
    return {"cyclic": cyclic, "ctx_before_jump": ctx_before_jump, "ctx_before_block": ctx_before_block,
            "entry_jump_targeted": entry_jump_targeted}


def where_of(exc):
    tb = exc.__traceback__
    last = None
    while tb is not None:
        fn = tb.tb_frame.f_code.co_filename
        if "/explorerscript/" in fn:
            last = f"{fn.split('/explorerscript/', 1)[1]}:{tb.tb_frame.f_code.co_name}"
        tb = tb.tb_next
    return last or "?"


def analyse(rops, infos, coros, want_c09=True):
    """Decompile with the ExplorerScript decompiler and check C02 / C06 / C09 obligations."""
    an = Analysis()
    before = describe(rops)
    snap0 = snapshot(rops, infos, coros)
    m_in = None
    try:
        m_in, e_in = lts.machine(rops, jump_index_last=False)
    except lts.MalformedMachine as e:
        an.exception = ("HarnessMalformedInput", str(e), "vf")
        return an
    work_ops = copy.deepcopy(rops)
    work_infos = copy.deepcopy(infos)
    try:
        text, sm = impl.decompile_es(work_ops, work_infos, coros)
    except RecursionError as e:
        an.exception = ("RecursionError", str(e)[:200], where_of(e))
        an.c06.append({"kind": "exception:RecursionError", "detail": {"input": before, "where": an.exception[2]}})
        return an
    except Exception as e:
        an.exception = (type(e).__name__, str(e)[:200], where_of(e))
        an.c06.append({"kind": f"exception:{type(e).__name__}",
                       "detail": {"input": before, "error": str(e)[:300], "where": an.exception[2]}})
        return an
    if not isinstance(text, str) or sm is None:
        an.c06.append({"kind": "bad-return", "detail": {"input": before, "returned": repr((type(text), type(sm)))}})
        return an
    an.text = text
    an.source_map = sm
    an.fallback = text.startswith(MARKER)
    # compile the text (both properties need it)
    try:
        comp2 = impl.compile_es(text)
        an.comp2 = comp2
    except Exception as e:
        detail = {"input": before, "text": text, "error": f"{type(e).__name__}: {e}"[:300]}
        if an.fallback:
            an.c06.append({"kind": "fallback-not-compilable", "detail": detail})
        else:
            an.c02.append({"kind": f"reject:{type(e).__name__}", "detail": detail})
        return an
    if an.fallback:
        from .props.C07 import compare_sets
        diffs = compare_sets(rops, infos, coros, comp2)
        if diffs:
            an.c06.append({"kind": "fallback-inexact", "detail": {"input": before, "text": text, "diffs": diffs}})
    # behaviour: Machine(x) x Machine(compile(text))
    try:
        m_out, e_out = lts.machine(comp2.routine_ops, jump_index_last=True)
    except lts.MalformedMachine as e:
        an.c02.append({"kind": "recompiled-malformed", "detail": {"input": before, "text": text, "error": str(e)}})
        return an
    if len(e_in) != len(e_out):
        an.c02.append({"kind": "routine-count", "detail": {"input": before, "text": text}})
        return an
    m_in_scn = relax_scn_cases(m_in, rops)
    for r, (a, b) in enumerate(zip(e_in, e_out)):
        ok, st, tr, rel, mm = lts.product(m_in_scn, a, m_out, b, label_eq=label_eq)
        an.states += st
        an.transitions += tr
        an.relation |= rel
        if not ok:
            an.c02.append({"kind": "behaviour-diff:recompiled", "detail": {
                "routine": r, "input": before, "text": text, "mismatch": mm.as_dict(), "recompiled": describe(comp2.routine_ops)}})
    t_in = impl.routine_table(infos, coros)
    t_out = impl.routine_table(comp2.routine_infos, comp2.named_coroutines)
    if t_in != t_out:
        an.c02.append({"kind": "routine-table", "detail": {"input": before, "text": text, "expected": t_in, "got": t_out}})
    # behaviour: Machine(x) x Ref(text read per the specification)
    if not an.fallback:
        try:
            prog = reader.read_program(text)
            ref = refsem.ref_program(prog, impl.PERF)
        except (reader.ReadError, refsem.RefError) as e:
            an.c02.append({"kind": "text-not-meaningful", "detail": {"input": before, "text": text, "error": str(e)}})
            ref = None
        except Exception as e:
            an.c02.append({"kind": f"reject:{type(e).__name__}", "detail": {"input": before, "text": text, "error": str(e)[:200]}})
            ref = None
        if ref is not None:
            if len(ref.entries) != len(e_in):
                an.c02.append({"kind": "routine-count", "detail": {"input": before, "text": text}})
            else:
                for r, (a, b) in enumerate(zip(e_in, ref.entries)):
                    ok, st, tr, rel, mm = lts.product(ref.lts, b, m_in, a, label_eq=label_eq)
                    an.states += st
                    an.transitions += tr
                    if not ok:
                        an.c02.append({"kind": "behaviour-diff:text", "detail": {
                            "routine": r, "input": before, "text": text, "mismatch": mm.as_dict()}})
                if ref.table != t_in:
                    an.c02.append({"kind": "routine-table:text", "detail": {"input": before, "text": text,
                                                                            "expected": t_in, "got": ref.table}})
    if want_c09 and not an.c02:
        an.c09 = check_decompile_source_map(rops, text, sm, comp2, an.relation, before)
    snap1 = snapshot(rops, infos, coros)
    an.input_changed = snap0 != snap1
    return an


def check_decompile_source_map(rops, text, sm, comp2, relation, before):
    """C09 obligations for one decompilation (ExplorerScript or fallback SsbScript output)."""
    viols = []
    lines = text.split("\n")
    by_off = {}
    for r, ops in enumerate(rops):
        for i, op in enumerate(ops):
            by_off[op.offset] = (r, i, op)
    entries = dict(iter(sm))
    detail0 = {"input": before, "text": text}
    for off, mp in entries.items():
        if off not in by_off:
            viols.append({"kind": "key-not-an-input-offset", "detail": {**detail0, "key": off}})
            continue
        if not (0 <= mp.line < len(lines)):
            viols.append({"kind": "line-out-of-range", "detail": {**detail0, "key": off, "entry": [mp.line, mp.column]}})
            continue
        ln = lines[mp.line]
        first = len(ln) - len(ln.lstrip(" "))
        at = ln[mp.column:] if 0 <= mp.column <= len(ln) else ""
        if ln[first:].startswith("} elseif"):
            # the statement of this op is the elseif header that stands behind the closing brace
            ok_pos = mp.column == first + 2
        else:
            ok_pos = ln.strip() != "" and mp.column == first
        if not ok_pos:
            viols.append({"kind": "not-at-statement-start", "detail": {**detail0, "key": off, "entry": [mp.line, mp.column],
                                                                      "line_text": ln}})
        elif by_off[off][2].op_code.name == "Jump" and not text.startswith(MARKER) and \
                not at.startswith(("jump @", "break_loop;", "continue;")):
            # a Jump op has an entry only where a statement was printed for it
            viols.append({"kind": "jump-entry-not-at-a-jump-statement", "detail": {**detail0, "key": off, "entry": [mp.line, mp.column],
                                                                                 "line_text": ln}})
    if viols:
        return viols
    # relate input ops to the ops of the recompiled text and compare lines with the compile-time map
    out_ops = comp2.routine_ops
    csm = comp2.source_map
    lines_of = {}      # input offset -> set of lines the compile-time map gives the related ops (an op may be printed twice)
    ops_of = {}
    for a, b in relation:
        if a[0] != "m" or b[0] != "m":
            continue
        x = rops[a[1]][a[2]]
        y = out_ops[b[1]][b[2]]
        cm = csm.get_op_line_and_col(y.offset)
        if cm is None:
            continue  # C08's business
        lines_of.setdefault(x.offset, set()).add(cm.line)
        ops_of[x.offset] = x
    lines_with_entry = set()
    for off, ls in lines_of.items():
        ent = entries.get(off)
        if ent is None:
            continue
        lines_with_entry |= ls
        if ent.line not in ls:
            x = ops_of[off]
            viols.append({"kind": "line-differs-from-compile-map", "detail": {
                **detail0, "op": f"{x.op_code.name}@{off}", "decompile_entry": [ent.line, ent.column],
                "compile_lines": sorted(ls)}})
    for off, ls in lines_of.items():
        if off in entries:
            continue
        x = ops_of[off]
        if x.op_code.name in lts.JUMP_INDEX and ls & lines_with_entry:
            continue  # non-first member of a || group (or a case header sharing the line): exempt
        viols.append({"kind": "printed-op-without-entry", "detail": {
            **detail0, "op": f"{x.op_code.name}@{off}", "compile_lines": sorted(ls)}})
    return viols
