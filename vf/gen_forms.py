"""G-forms: the finite table of every condition / header / assignment / routine-header / argument form,
each placed in a flat context.  A few hundred programs; independent of VERIF_SEED."""
from __future__ import annotations

from . import esast as A
from .gen_prog import PERF

VARS = [("c", "$A"), ("i", 4), ("c", "IDENT_A")]
RHS = [("i", 3), ("c", "$B"), ("f", "1.5"), ("i", -2)]
OPERS = A.OPERATORS


def all_conds():
    for var in VARS:
        for oper in OPERS:
            for rk in ("int", "valueof"):
                for rhs in RHS:
                    yield A.Cond("op", var, oper, rk, rhs)
    for var in VARS:
        for idx in (0, 3):
            yield A.Cond("bit", False, var, idx)
    for neg in (False, True):
        for idx in (0, 5):
            yield A.Cond("bit", neg, ("c", PERF), idx)
    for neg in (False, True):
        for w in ("debug", "edit", "variation"):
            yield A.Cond("special", neg, w)
    for var in VARS:
        for oper in ("==", "<", ">", "<=", ">="):
            yield A.Cond("scn", var, oper, 3, 1)


def all_switch_headers():
    for v in VARS:
        yield A.SwitchHeader("var", v)
        yield A.SwitchHeader("scn", v, 0)
        yield A.SwitchHeader("scn", v, 1)
        yield A.SwitchHeader("random", v)
        yield A.SwitchHeader("dmode", v)
    yield A.SwitchHeader("sector")
    yield A.SwitchHeader("opcall", "message_Menu", (("i", 1), ("s", "x")))
    yield A.SwitchHeader("opcall", "ProcessSpecial", (("c", "PROC"), ("i", 0), ("i", 0)))
    yield A.SwitchHeader("opcall", "anyop", ())


def all_case_headers():
    for v in VARS + [("f", "0.25")]:
        yield A.CaseHeader("val", v)
        yield A.CaseHeader("menu2", v)
    for oper in OPERS:
        for rk in ("int", "valueof"):
            for rhs in RHS[:3]:
                yield A.CaseHeader("op", oper, rk, rhs)
    yield A.CaseHeader("menu", ("s", "Hello"))
    yield A.CaseHeader("menu", ("l", (("english", "Yes"), ("german", "Ja"))))


def all_assigns():
    for var in VARS:
        for aop in A.ASSIGN_OPS:
            for rk in ("int", "valueof"):
                for rhs in RHS[:3]:
                    yield A.Assign("reg", var, None, aop, rk, rhs)
        for idx in (0, 2):
            for rhs in (("i", 0), ("i", 1)):
                yield A.Assign("reg", var, idx, "=", "int", rhs)
        yield A.Assign("clear", var)
        yield A.Assign("init", var)
        yield A.Assign("reset_scn", var)
        yield A.Assign("advlog", var)
        yield A.Assign("dmode", var, ("c", "DMODE_OPEN"))
        yield A.Assign("dmode", var, ("i", 2))
        yield A.Assign("scn", var, 3, 0)
    for idx in (0, 7):
        for rhs in (("i", 0), ("i", 1)):
            yield A.Assign("reg", ("c", PERF), idx, "=", "int", rhs)
    yield A.Assign("reset_dr")


ARG_VALUES = [("i", 0), ("i", 12), ("i", -12), ("f", "1.5"), ("f", "-0.25"), ("f", "0.0"), ("c", "CONST_X"),
              ("c", "$VAR_X"), ("s", "plain"), ("s", "two words"), ("s", ""), ("l", (("english", "a"),)),
              ("l", (("english", "a"), ("french", "b"))), ("p", "mark", 0, 0, 3, 4), ("p", "mark", 2, 0, 3, 4),
              ("p", "m2", 0, 2, 0, 10), ("p", "m3", 2, 2, 7, 7)]


def form_programs():
    n = 0

    def P(tag, body, routines=None):
        nonlocal n
        n += 1
        prog = A.Program(routines if routines is not None else [A.Routine("def", 0, body)])
        return ("forms", tag, n), prog

    for i, c in enumerate(all_conds()):
        a, b = A.Op("then_op"), A.Op("after_op")
        t = i % 4
        if t == 0:
            body = [A.If([A.IfBranch(False, [c], [a])]), b]
        elif t == 1:
            body = [A.If([A.IfBranch(True, [c], [a])], [A.Op("else_op")]), b]
        elif t == 2:
            body = [A.While(False, c, [a]), b]
        else:
            body = [A.For(A.Op("init_op"), c, A.Op("incr_op"), [a]), b]
        yield P(("cond", c.key()), body)
    cases = list(all_case_headers())
    for h in all_switch_headers():
        body = [A.Switch(h, [A.SwitchItem(A.CaseHeader("val", ("i", 1)), [A.Op("c1"), A.Ctrl("break")]),
                             A.SwitchItem(A.CaseHeader("op", ">", "int", ("i", 5)), [A.Op("c2"), A.Ctrl("break")]),
                             A.SwitchItem(None, [A.Op("dflt")])]), A.Op("after_op")]
        yield P(("switch", h.key()), body)
    for sh in (A.SwitchHeader("var", ("c", "$S")), A.SwitchHeader("scn", ("c", "$S"), 0),
               A.SwitchHeader("opcall", "message_SwitchMenu", (("i", 1), ("i", 2)))):
        for ch in cases:
            body = [A.Switch(sh, [A.SwitchItem(ch, [A.Op("c1"), A.Ctrl("break")]),
                                  A.SwitchItem(A.CaseHeader("val", ("i", 99)), [A.Op("c2")])]), A.Op("after_op")]
            yield P(("case", sh.key(), ch.key()), body)
    for a in all_assigns():
        yield P(("assign", a.key()), [A.Op("before_op"), a, A.Op("after_op")])
    for v in ARG_VALUES:
        yield P(("arg", v), [A.Op("some_op", [v]), A.Op("two_args", [("i", 1), v]), A.Ctrl("end")])
    yield P(("args", "all"), [A.Op("many", ARG_VALUES), A.Ctrl("hold")])
    # operations whose opcode can also head a switch, written as plain statements
    for name in ("ProcessSpecial", "message_Menu", "message_SwitchMenu", "main_EnterAdventure"):
        yield P(("special-op", name), [A.Op(name, [("i", 1), ("i", 2)]), A.Op("after_op"), A.Ctrl("end")])
        yield P(("special-op-ctx", name), [A.Op(name, [("i", 3)], ctx=("actor", ("i", 1))), A.Op("after_op"), A.Ctrl("end")])
        yield P(("special-op-with", name), [A.With("performer", ("i", 0), A.Op(name, [("c", "CONST_P")])), A.Ctrl("hold")])
    # the same position mark (and the same string) twice in one argument list
    yield P(("args", "same-twice"), [A.Op("path", [("i", 2), ("p", "a", 0, 0, 1, 2), ("p", "b", 2, 0, 3, 2), ("p", "a", 0, 0, 1, 2),
                                                   ("s", "x"), ("s", "x")]), A.Ctrl("hold")])
    for kind in ("actor", "object", "performer"):
        for target in (("i", 2), ("c", "ACTOR_X")):
            yield P(("inlinectx", kind, target), [A.Op("ctx_op", [("i", 1)], ctx=(kind, target)), A.Op("after_op")])
            for inner in (A.Op("inner_op", [("s", "x")]), A.Assign("reg", ("c", "$A"), None, "=", "int", ("i", 1)),
                          A.Ctrl("return"), A.Ctrl("end"), A.Ctrl("hold"), A.Jump("L"), A.Call("L")):
                body = [A.With(kind, target, inner), A.Op("after_op"), A.Label("L"), A.Op("at_label"), A.Ctrl("end")]
                yield P(("with", kind, target, inner.key()), body)
    for mk in ("message_SwitchTalk", "message_SwitchMonologue"):
        for v in VARS:
            yield P(("msw", mk, v), [A.MsgSwitch(mk, v, [(("i", 1), ("s", "one")), (("c", "TWO"), ("l", (("english", "two"),)))],
                                                  ("s", "other")), A.Op("after_op")])
            yield P(("msw-nodefault", mk, v), [A.MsgSwitch(mk, v, [(("i", 1), ("s", "one"))], None)])
    # routine headers (the body has a jump-carrying op and an op the compiler drops, so that offsets and positions differ)
    body = [A.If([A.IfBranch(False, [A.Cond("special", False, "debug")], [A.Op("r_then")])]), A.Op("r_op"), A.Ctrl("end")]
    for kind in ("actor", "object", "performer"):
        for target in (("i", 0), ("i", 77), ("c", "TARGET_C")):
            for legacy in (False, True):
                yield P(("routine-for", kind, target, legacy), None,
                        [A.Routine("for", 0, body, target_kind=kind, target=target, legacy=legacy)])
    yield P(("routine-def",), None, [A.Routine("def", 0, body), A.Routine("def", 1, [A.Ctrl("hold")]),
                                    A.Routine("def", 2, None)])
    yield P(("routine-coro",), None, [A.Routine("coro", None, body, name="CORO_ONE"),
                                     A.Routine("coro", None, None, name="CORO_TWO"),
                                     A.Routine("coro", None, [A.Ctrl("end")], name="CORO_THREE")])
    for term in ("return", "end", "hold", None):
        yield P(("terminator", term), [A.Op("x")] + ([A.Ctrl(term)] if term else []))
