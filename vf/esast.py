"""ExplorerScript AST used by the generators (ground truth) and by the reader of decompiler output.

Values (operation arguments, operands) are canonical tuples:
    ('i', int) ('f', 'text of fixed point as the compiler normalises it') ('c', name)
    ('s', text) ('l', ((lang, text), ...)) ('p', name, x_off, y_off, x, y)

Everything else is a small class.  The renderer (`Renderer`) prints a Program and records for
every node the zero-based (line, column) where its first token was written (`node.pos`) and,
where useful, extra positions (`node.xpos`).
"""
from __future__ import annotations

OPERATORS = ["FALSE", "TRUE", "==", ">", "<", ">=", "<=", "!=", "&", "^", "&<<"]
OPERATOR_VALUE = {n: i for i, n in enumerate(OPERATORS)}
ASSIGN_OPS = ["=", "-=", "+=", "*=", "/="]
ASSIGN_OP_VALUE = {n: i for i, n in enumerate(ASSIGN_OPS)}


class Node:
    __slots__ = ("pos", "xpos", "uid")

    def __init__(self):
        self.pos = None
        self.xpos = None
        self.uid = None

    def key(self):
        raise NotImplementedError

    def __repr__(self):
        return f"{self.__class__.__name__}{self.key()!r}"


# ---------------------------------------------------------------- conditions / headers
class Cond(Node):
    """kind: 'op' (var, operator, rhs_kind 'int'|'valueof', rhs) | 'bit' (neg, var, idx)
    | 'special' (neg, 'debug'|'edit'|'variation') | 'scn' (var, operator, a, b) | 'opcall' (name, args)"""
    __slots__ = ("kind", "data")

    def __init__(self, kind, *data):
        super().__init__()
        self.kind = kind
        self.data = tuple(data)

    def key(self):
        return ("cond", self.kind) + self.data


class SwitchHeader(Node):
    """kind: 'var' (v) | 'scn' (v, idx) | 'random' (v) | 'dmode' (v) | 'sector' () | 'opcall' (name, args, ctx)"""
    __slots__ = ("kind", "data")

    def __init__(self, kind, *data):
        super().__init__()
        self.kind = kind
        if kind == "opcall":
            data = (data[0], tuple(data[1]), data[2] if len(data) > 2 else None)
        self.data = tuple(data)

    def key(self):
        return ("swh", self.kind) + self.data


class CaseHeader(Node):
    """kind: 'val' (v) | 'op' (operator, rhs_kind, rhs) | 'menu' (string value) | 'menu2' (v)"""
    __slots__ = ("kind", "data")

    def __init__(self, kind, *data):
        super().__init__()
        self.kind = kind
        self.data = tuple(data)

    def key(self):
        return ("ch", self.kind) + self.data


# ---------------------------------------------------------------- statements
class Stmt(Node):
    __slots__ = ()


class Op(Stmt):
    __slots__ = ("name", "args", "ctx")

    def __init__(self, name, args=(), ctx=None):
        super().__init__()
        self.name = name
        self.args = tuple(args)
        self.ctx = ctx  # None | (kind 'actor'|'object'|'performer', value)

    def key(self):
        return ("op", self.name, self.args, self.ctx)


class With(Stmt):
    __slots__ = ("kind", "target", "stmt")

    def __init__(self, kind, target, stmt):
        super().__init__()
        self.kind = kind
        self.target = target
        self.stmt = stmt

    def key(self):
        return ("with", self.kind, self.target, self.stmt.key())


class Label(Stmt):
    __slots__ = ("name", "sigil")

    def __init__(self, name, sigil="@"):
        super().__init__()
        self.name = name
        self.sigil = sigil

    def key(self):
        return ("label", self.name)


class Jump(Stmt):
    __slots__ = ("name",)

    def __init__(self, name):
        super().__init__()
        self.name = name

    def key(self):
        return ("jump", self.name)


class Call(Stmt):
    __slots__ = ("name",)

    def __init__(self, name):
        super().__init__()
        self.name = name

    def key(self):
        return ("call", self.name)


class Ctrl(Stmt):
    """kind in return end hold continue break break_loop"""
    __slots__ = ("kind",)

    def __init__(self, kind):
        super().__init__()
        self.kind = kind

    def key(self):
        return ("ctrl", self.kind)


class Assign(Stmt):
    """kind: 'reg' (var, idx|None, aop, rhs_kind, rhs) | 'clear' (v) | 'init' (v) | 'reset_dr' ()
    | 'reset_scn' (v) | 'advlog' (v) | 'dmode' (d, v) | 'scn' (var, a, b)"""
    __slots__ = ("kind", "data")

    def __init__(self, kind, *data):
        super().__init__()
        self.kind = kind
        self.data = tuple(data)

    def key(self):
        return ("assign", self.kind) + self.data


class IfBranch(Node):
    __slots__ = ("neg", "conds", "body")

    def __init__(self, neg, conds, body):
        super().__init__()
        self.neg = neg
        self.conds = tuple(conds)
        self.body = tuple(body)

    def key(self):
        return (self.neg, tuple(c.key() for c in self.conds), tuple(s.key() for s in self.body))


class If(Stmt):
    __slots__ = ("branches", "else_body", "else_pos")

    def __init__(self, branches, else_body=None):
        super().__init__()
        self.branches = tuple(branches)
        self.else_body = None if else_body is None else tuple(else_body)
        self.else_pos = None

    def key(self):
        return ("if", tuple(b.key() for b in self.branches),
                None if self.else_body is None else tuple(s.key() for s in self.else_body))


class SwitchItem(Node):
    """header None => default."""
    __slots__ = ("header", "body")

    def __init__(self, header, body):
        super().__init__()
        self.header = header
        self.body = tuple(body)

    def key(self):
        return (None if self.header is None else self.header.key(), tuple(s.key() for s in self.body))


class Switch(Stmt):
    __slots__ = ("header", "items")

    def __init__(self, header, items):
        super().__init__()
        self.header = header
        self.items = tuple(items)

    def key(self):
        return ("switch", self.header.key(), tuple(i.key() for i in self.items))


class MsgSwitch(Stmt):
    """kind 'message_SwitchTalk'|'message_SwitchMonologue'; cases: ((value, string value), ...); default: string|None"""
    __slots__ = ("kind", "value", "cases", "default")

    def __init__(self, kind, value, cases, default=None):
        super().__init__()
        self.kind = kind
        self.value = value
        self.cases = tuple(cases)
        self.default = default

    def key(self):
        return ("msgswitch", self.kind, self.value, self.cases, self.default)


class Forever(Stmt):
    __slots__ = ("body",)

    def __init__(self, body):
        super().__init__()
        self.body = tuple(body)

    def key(self):
        return ("forever", tuple(s.key() for s in self.body))


class While(Stmt):
    __slots__ = ("neg", "cond", "body")

    def __init__(self, neg, cond, body):
        super().__init__()
        self.neg = neg
        self.cond = cond
        self.body = tuple(body)

    def key(self):
        return ("while", self.neg, self.cond.key(), tuple(s.key() for s in self.body))


class For(Stmt):
    __slots__ = ("init", "cond", "incr", "body")

    def __init__(self, init, cond, incr, body):
        super().__init__()
        self.init = init
        self.cond = cond
        self.incr = incr
        self.body = tuple(body)

    def key(self):
        return ("for", self.init.key(), self.cond.key(), self.incr.key(), tuple(s.key() for s in self.body))


class MacroCall(Stmt):
    __slots__ = ("name", "args")

    def __init__(self, name, args=()):
        super().__init__()
        self.name = name
        self.args = tuple(args)

    def key(self):
        return ("mcall", self.name, self.args)


# ---------------------------------------------------------------- top level
class Routine(Node):
    """kind 'def' | 'for' | 'coro'.  body None => alias previous."""
    __slots__ = ("kind", "rid", "name", "target_kind", "target", "body", "legacy")

    def __init__(self, kind, rid=None, body=(), name=None, target_kind=None, target=None, legacy=False):
        super().__init__()
        self.kind = kind
        self.rid = rid
        self.name = name
        self.target_kind = target_kind
        self.target = target
        self.body = None if body is None else tuple(body)
        self.legacy = legacy

    def key(self):
        return ("routine", self.kind, self.rid, self.name, self.target_kind, self.target,
                None if self.body is None else tuple(s.key() for s in self.body))


class Macro(Node):
    __slots__ = ("name", "params", "body", "file")

    def __init__(self, name, params, body):
        super().__init__()
        self.name = name
        self.params = tuple(params)
        self.body = tuple(body)
        self.file = None  # path relative to the compiled file's directory, None = the compiled file itself

    def key(self):
        return ("macro", self.name, self.params, tuple(s.key() for s in self.body))


class Program(Node):
    __slots__ = ("imports", "macros", "routines", "order")

    def __init__(self, routines=(), macros=(), imports=(), order=None):
        super().__init__()
        self.imports = tuple(imports)
        self.macros = tuple(macros)
        self.routines = tuple(routines)
        # order: optional explicit interleaving of ('m', i) / ('r', i); default macros first
        self.order = order

    def key(self):
        return ("program", self.imports, tuple(m.key() for m in self.macros),
                tuple(r.key() for r in self.routines), self.order)

    def toplevel(self):
        if self.order is not None:
            return [(self.macros[i] if k == "m" else self.routines[i]) for k, i in self.order]
        return list(self.macros) + list(self.routines)


# ---------------------------------------------------------------- value spelling
def spell_string(text, quote="'"):
    """Single-line literal for strings without backslashes; newlines as \\n, the quote escaped."""
    assert "\\" not in text
    return quote + text.replace(quote, "\\" + quote).replace("\n", "\\n") + quote


def spell_int(n, base=10):
    sign = "-" if n < 0 else ""
    a = abs(n)
    if base == 10:
        return f"{sign}{a}"
    if base == 16:
        return f"{sign}0x{a:x}"
    if base == 8:
        return f"{sign}0o{a:o}"
    if base == 2:
        return f"{sign}0b{a:b}"
    raise ValueError(base)


class Style:
    """Spelling / layout policy of the renderer."""

    def __init__(self, multiline=True, indent="    ", quote="'", int_base=10, label_sigil=None,
                 trailing_comma=False, legacy_for=False, stmts_per_line=1):
        self.multiline = multiline
        self.indent = indent
        self.quote = quote
        self.int_base = int_base
        self.label_sigil = label_sigil
        self.trailing_comma = trailing_comma
        self.legacy_for = legacy_for
        self.stmts_per_line = stmts_per_line


DEFAULT_STYLE = Style()
COMPACT_STYLE = Style(multiline=False)


class Renderer:
    """Prints a Program; records node.pos for every node at the first token it writes."""

    def __init__(self, style=DEFAULT_STYLE):
        self.style = style
        self.buf = []
        self.line = 0
        self.col = 0
        self.depth = 0
        self.at_line_start = True
        self.tokens = []  # (text, line, col) for every token written, in order
        self._seen = set()

    # -- low level
    def _raw(self, text):
        self.buf.append(text)
        nl = text.count("\n")
        if nl:
            self.line += nl
            self.col = len(text) - text.rfind("\n") - 1
        else:
            self.col += len(text)

    def tok(self, text, node=None, space=True):
        """Write one token, preceded by indentation (line start) or a blank."""
        if self.at_line_start:
            if self.style.multiline:
                self._raw(self.style.indent * self.depth)
            self.at_line_start = False
        elif space:
            self._raw(" ")
        p = (self.line, self.col)
        if node is not None and id(node) not in self._seen:
            self._seen.add(id(node))
            node.pos = p
        self.tokens.append((text, p[0], p[1]))
        self._raw(text)
        return p

    def nl(self):
        if self.style.multiline:
            self._raw("\n")
            self.at_line_start = True

    def text(self):
        return "".join(self.buf)

    # -- values
    def value(self, v):
        t = v[0]
        if t == "i":
            return spell_int(v[1], self.style.int_base)
        if t == "f":
            return v[1]
        if t == "c":
            return v[1]
        if t == "s":
            return spell_string(v[1], self.style.quote)
        if t == "l":
            inner = ", ".join(f"{k}={spell_string(s, self.style.quote)}" for k, s in v[1])
            return "{" + inner + ("," if self.style.trailing_comma else "") + "}"
        if t == "p":
            def co(n, off):
                return f"{n}.5" if off else f"{n}"
            return f"Position<{spell_string(v[1], self.style.quote)}, {co(v[4], v[2])}, {co(v[5], v[3])}>"
        raise ValueError(v)

    def arglist(self, args):
        s = ", ".join(self.value(a) for a in args)
        if args and self.style.trailing_comma:
            s += ","
        return s

    # -- conditions and headers (written as one token run; pos = first token)
    def cond_text(self, c):
        k, d = c.kind, c.data
        if k == "op":
            var, oper, rk, rhs = d
            r = f"value({self.value(rhs)})" if rk == "valueof" else self.value(rhs)
            return f"{self.value(var)} {oper} {r}"
        if k == "bit":
            neg, var, idx = d
            return f"{'not ' if neg else ''}{self.value(var)}[{idx}]"
        if k == "special":
            neg, word = d
            return f"{'not ' if neg else ''}{word}"
        if k == "scn":
            var, oper, a, b = d
            return f"scn({self.value(var)}) {oper} [{a}, {b}]"
        if k == "opcall":
            name, args = d
            return f"{name}({self.arglist(args)})"
        raise ValueError(k)

    def switch_header_text(self, h):
        k, d = h.kind, h.data
        if k == "var":
            return self.value(d[0])
        if k == "scn":
            return f"scn({self.value(d[0])})[{d[1]}]"
        if k == "random":
            return f"random({self.value(d[0])})"
        if k == "dmode":
            return f"dungeon_mode({self.value(d[0])})"
        if k == "sector":
            return "sector()"
        if k == "opcall":
            name, args = d[0], d[1]
            ctx = d[2] if len(d) > 2 else None
            c = f"<{ctx[0]} {self.value(ctx[1])}>" if ctx else ""
            return f"{name}{c}({self.arglist(args)})"
        raise ValueError(k)

    def case_header_text(self, h):
        k, d = h.kind, h.data
        if k == "val":
            return self.value(d[0])
        if k == "op":
            oper, rk, rhs = d
            r = f"value({self.value(rhs)})" if rk == "valueof" else self.value(rhs)
            return f"{oper} {r}"
        if k == "menu":
            return f"menu({self.value(d[0])})"
        if k == "menu2":
            return f"menu2({self.value(d[0])})"
        raise ValueError(k)

    def assign_text(self, a):
        k, d = a.kind, a.data
        if k == "reg":
            var, idx, aop, rk, rhs = d
            r = f"value({self.value(rhs)})" if rk == "valueof" else self.value(rhs)
            i = f"[{idx}]" if idx is not None else ""
            return f"{self.value(var)}{i} {aop} {r}"
        if k == "clear":
            return f"clear {self.value(d[0])}"
        if k == "init":
            return f"init {self.value(d[0])}"
        if k == "reset_dr":
            return "reset dungeon_result"
        if k == "reset_scn":
            return f"reset scn({self.value(d[0])})"
        if k == "advlog":
            return f"adventure_log = {self.value(d[0])}"
        if k == "dmode":
            return f"dungeon_mode({self.value(d[0])}) = {self.value(d[1])}"
        if k == "scn":
            return f"{self.value(d[0])} = scn[{d[1]}, {d[2]}]"
        raise ValueError(k)

    # -- statements
    def simple_text(self, s):
        """Text of a simple statement without the ';'."""
        if isinstance(s, Op):
            c = f"<{s.ctx[0]} {self.value(s.ctx[1])}>" if s.ctx else ""
            return f"{s.name}{c}({self.arglist(s.args)})"
        if isinstance(s, Label):
            return f"{self.style.label_sigil or s.sigil}{s.name}"
        if isinstance(s, Jump):
            return f"jump @{s.name}"
        if isinstance(s, Call):
            return f"call @{s.name}"
        if isinstance(s, Ctrl):
            return s.kind
        if isinstance(s, Assign):
            return self.assign_text(s)
        raise ValueError(s)

    def simple(self, s, end_line=True):
        self.tok(self.simple_text(s), s)
        self.tok(";", space=False)
        if end_line:
            self.nl()

    def body(self, stmts):
        self.tok("{")
        self.nl()
        self.depth += 1
        for s in stmts:
            self.stmt(s)
        self.depth -= 1
        self.tok("}")

    def conds(self, neg, conds):
        if neg:
            self.tok("not")
        self.tok("(")
        for i, c in enumerate(conds):
            if i:
                self.tok("||")
            self.tok(self.cond_text(c), c, space=i > 0)
        self.tok(")", space=False)

    def stmt(self, s):
        if isinstance(s, (Op, Label, Jump, Call, Ctrl, Assign)):
            self.simple(s)
        elif isinstance(s, With):
            self.tok(f"with ({s.kind} {self.value(s.target)})", s)
            self.tok("{")
            self.simple(s.stmt, end_line=False)
            self.tok("}")
            self.nl()
        elif isinstance(s, MacroCall):
            self.tok(f"~{s.name}({self.arglist(s.args)})", s)
            self.tok(";", space=False)
            self.nl()
        elif isinstance(s, If):
            for i, b in enumerate(s.branches):
                self.tok("if" if i == 0 else "elseif", s if i == 0 else b)
                if i == 0:
                    b.pos = s.pos
                    self._seen.add(id(b))
                self.conds(b.neg, b.conds)
                self.body(b.body)
            if s.else_body is not None:
                s.else_pos = self.tok("else")
                self.body(s.else_body)
            self.nl()
        elif isinstance(s, Switch):
            self.tok("switch", s)
            self.tok("(")
            self.tok(self.switch_header_text(s.header), s.header, space=False)
            self.tok(")", space=False)
            self.tok("{")
            self.nl()
            self.depth += 1
            for it in s.items:
                if it.header is None:
                    self.tok("default", it)
                else:
                    self.tok("case", it)
                    self.tok(self.case_header_text(it.header), it.header)
                self.tok(":", space=False)
                self.nl()
                self.depth += 1
                for st in it.body:
                    self.stmt(st)
                self.depth -= 1
            self.depth -= 1
            self.tok("}")
            self.nl()
        elif isinstance(s, MsgSwitch):
            self.tok(s.kind, s)
            self.tok(f"({self.value(s.value)})")
            self.tok("{")
            self.nl()
            self.depth += 1
            xp = []
            for v, text in s.cases:
                p = self.tok("case")
                self.tok(self.value(v))
                self.tok(":", space=False)
                self.tok(self.value(text))
                self.nl()
                xp.append(p)
            if s.default is not None:
                p = self.tok("default")
                self.tok(":", space=False)
                self.tok(self.value(s.default))
                self.nl()
                xp.append(p)
            s.xpos = xp
            self.depth -= 1
            self.tok("}")
            self.nl()
        elif isinstance(s, Forever):
            self.tok("forever", s)
            self.body(s.body)
            self.nl()
        elif isinstance(s, While):
            self.tok("while", s)
            self.conds(s.neg, [s.cond])
            self.body(s.body)
            self.nl()
        elif isinstance(s, For):
            self.tok("for", s)
            self.tok("(")
            self.simple(s.init, end_line=False)
            self.tok(self.cond_text(s.cond), s.cond)
            self.tok(";", space=False)
            self.simple(s.incr, end_line=False)
            self.tok(")", space=False)
            self.body(s.body)
            self.nl()
        else:
            raise ValueError(s)

    def routine(self, r):
        if r.kind == "coro":
            self.tok("coro", r)
            self.tok(r.name)
        elif r.kind == "def":
            self.tok("def", r)
            self.tok(str(r.rid))
        else:
            self.tok("def", r)
            self.tok(str(r.rid))
            if r.legacy or self.style.legacy_for:
                self.tok(f"for_{r.target_kind}({self.value(r.target)})")
            else:
                self.tok(f"for {r.target_kind} {self.value(r.target)}")
        self.tok("{")
        self.nl()
        self.depth += 1
        if r.body is None:
            self.tok("alias previous;")
            self.nl()
        else:
            for s in r.body:
                self.stmt(s)
        self.depth -= 1
        self.tok("}")
        self.nl()

    def macro(self, m):
        self.tok("macro", m)
        self.tok(f"{m.name}({', '.join(m.params)})")
        self.tok("{")
        self.nl()
        self.depth += 1
        for s in m.body:
            self.stmt(s)
        self.depth -= 1
        self.tok("}")
        self.nl()

    def program(self, p):
        for imp in p.imports:
            self.tok(f"import {spell_string(imp, chr(34))};")
            self.nl()
        for t in p.toplevel():
            if isinstance(t, Macro):
                self.macro(t)
            else:
                self.routine(t)
        if not self.style.multiline:
            self._raw("\n")
        return self.text()


def render(program, style=DEFAULT_STYLE):
    r = Renderer(style)
    return r.program(program)


def render_with_tokens(program, style=DEFAULT_STYLE):
    r = Renderer(style)
    text = r.program(program)
    return text, r.tokens


def walk_stmts(stmts):
    """Yield every statement node (pre-order), descending into blocks."""
    for s in stmts:
        yield s
        if isinstance(s, If):
            for b in s.branches:
                yield from walk_stmts(b.body)
            if s.else_body is not None:
                yield from walk_stmts(s.else_body)
        elif isinstance(s, Switch):
            for it in s.items:
                yield from walk_stmts(it.body)
        elif isinstance(s, (Forever, While)):
            yield from walk_stmts(s.body)
        elif isinstance(s, For):
            yield s.init
            yield s.incr
            yield from walk_stmts(s.body)
        elif isinstance(s, With):
            yield s.stmt
