"""Reads ExplorerScript text (decompiler output) with the repository's ANTLR parser into the vf AST.

The generated lexer/parser is part of the trusted base here (DESIGN.md 1.2 front end (b)); literal
values are evaluated by this module from the specification's rules, not by the compiler's helpers.
"""
from __future__ import annotations

from . import esast as A


class ReadError(Exception):
    pass


def parse(text):
    from explorerscript.explorerscript_reader import ExplorerScriptReader
    return ExplorerScriptReader(text).read()


# ------------------------------------------------------------------ literals (from the spec)
def eval_int(text):
    s = text.strip()
    neg = s.startswith("-")
    if neg:
        s = s[1:]
    low = s.lower()
    if low.startswith("0x"):
        v = int(low[2:], 16)
    elif low.startswith("0o"):
        v = int(low[2:], 8)
    elif low.startswith("0b"):
        v = int(low[2:], 2)
    else:
        v = int(s, 10)
    return -v if neg else v


def eval_decimal(text):
    """Fixed point literal -> canonical text as the data type normalises it: no redundant leading zeros
    in the whole part, fraction kept as written, '-0' kept for negative zero whole parts."""
    s = text.strip()
    neg = s.startswith("-")
    if neg:
        s = s[1:]
    whole, _, frac = s.partition(".")
    whole = whole.lstrip("0") or "0"
    return f"{'-' if neg else ''}{whole}.{frac}"


def eval_single_line(lit):
    body = lit[1:-1]
    out = []
    i = 0
    while i < len(body):
        c = body[i]
        if c == "\\" and i + 1 < len(body):
            n = body[i + 1]
            if n == "n":
                out.append("\n")
                i += 2
                continue
            if n in "'\"":
                out.append(n)
                i += 2
                continue
        out.append(c)
        i += 1
    return "".join(out)


def eval_multi_line(lit):
    """The documented dedent algorithm (docs/language_spec.rst, '(Constant) Strings')."""
    body = lit[3:-3]
    lines = body.split("\n")
    lines = [ln[:-1] if ln.endswith("\r") else ln for ln in lines]
    if len(lines) == 1:
        return lines[0]
    first, middle, last = lines[0], lines[1:-1], lines[-1]
    rest = list(middle)
    if last.strip(" \t") != "":
        rest.append(last)
        last_dropped = False
    else:
        last_dropped = True
    # "whitespace characters before the first non-whitespace character in a line": blanks and tabs
    indents = [len(ln) - len(ln.lstrip(" \t")) for ln in rest]
    m = min(indents) if indents else 0
    rest = [ln[m:] for ln in rest]
    parts = []
    if first != "":
        parts.append(first)
    parts.extend(rest)
    return "\n".join(parts)


def eval_string_value(ctx):
    ml = ctx.MULTILINE_STRING_LITERAL()
    if ml is not None:
        return eval_multi_line(str(ml))
    return eval_single_line(str(ctx.STRING_LITERAL()))


def integer_like(ctx):
    if ctx.INTEGER() is not None:
        return ("i", eval_int(str(ctx.INTEGER())))
    if ctx.DECIMAL() is not None:
        return ("f", eval_decimal(str(ctx.DECIMAL())))
    if ctx.IDENTIFIER() is not None:
        return ("c", str(ctx.IDENTIFIER()))
    if ctx.VARIABLE() is not None:
        return ("c", str(ctx.VARIABLE()))
    raise ReadError("integer_like")


def string(ctx):
    if ctx.string_value() is not None:
        return ("s", eval_string_value(ctx.string_value()))
    ls = ctx.lang_string()
    items = []
    for a in ls.lang_string_argument():
        items.append((str(a.IDENTIFIER()), eval_string_value(a.string_value())))
    return ("l", tuple(items))


def pos_arg(ctx):
    if ctx.INTEGER() is not None:
        return eval_int(str(ctx.INTEGER())), 0
    s = str(ctx.DECIMAL())
    whole, _, frac = s.partition(".")
    frac = frac.rstrip("0")
    if frac not in ("", "5"):
        raise ReadError(f"position mark coordinate {s}")
    return int(whole or "0"), (2 if frac == "5" else 0)


def position_marker(ctx):
    name = eval_single_line(str(ctx.STRING_LITERAL()))
    x, xo = pos_arg(ctx.position_marker_arg(0))
    y, yo = pos_arg(ctx.position_marker_arg(1))
    return ("p", name, xo, yo, x, y)


def argument(ctx):
    if ctx.integer_like() is not None:
        return integer_like(ctx.integer_like())
    if ctx.string() is not None:
        return string(ctx.string())
    if ctx.position_marker() is not None:
        return position_marker(ctx.position_marker())
    raise ReadError("pos_argument")


def arglist(ctx):
    if ctx is None:
        return []
    return [argument(a) for a in ctx.pos_argument()]


def set_pos(node, ctx):
    node.pos = (ctx.start.line - 1, ctx.start.column)
    return node


# ------------------------------------------------------------------ statements
def conditional_operator(ctx):
    return ctx.getText()


def value_or_int(parent):
    """(rhs_kind, rhs) for rules with ( value_of | integer_like ) as last alternative."""
    vo = parent.value_of()
    if vo is not None:
        return "valueof", integer_like(vo.integer_like())
    il = parent.integer_like()
    if isinstance(il, list):
        il = il[-1]
    return "int", integer_like(il)


def if_header(ctx):
    if ctx.if_h_op() is not None:
        h = ctx.if_h_op()
        var = integer_like(h.integer_like(0))
        oper = conditional_operator(h.conditional_operator())
        if h.value_of() is not None:
            rk, rhs = "valueof", integer_like(h.value_of().integer_like())
        else:
            rk, rhs = "int", integer_like(h.integer_like(1))
        return set_pos(A.Cond("op", var, oper, rk, rhs), ctx)
    if ctx.if_h_bit() is not None:
        h = ctx.if_h_bit()
        return set_pos(A.Cond("bit", h.NOT() is not None, integer_like(h.integer_like()), eval_int(str(h.INTEGER()))), ctx)
    if ctx.if_h_negatable() is not None:
        h = ctx.if_h_negatable()
        word = "debug" if h.DEBUG() else "edit" if h.EDIT() else "variation"
        return set_pos(A.Cond("special", h.NOT() is not None, word), ctx)
    if ctx.if_h_scn() is not None:
        h = ctx.if_h_scn()
        var = integer_like(h.scn_var().integer_like())
        oper = conditional_operator(h.conditional_operator())
        return set_pos(A.Cond("scn", var, oper, eval_int(str(h.INTEGER(0))), eval_int(str(h.INTEGER(1)))), ctx)
    if ctx.operation() is not None:
        o = ctx.operation()
        return set_pos(A.Cond("opcall", str(o.IDENTIFIER()), tuple(arglist(o.arglist()))), ctx)
    raise ReadError("if_header")


def operation(ctx):
    name = str(ctx.IDENTIFIER())
    c = None
    if ctx.inline_ctx() is not None:
        h = ctx.inline_ctx().ctx_header()
        c = (str(h.IDENTIFIER()), integer_like(h.integer_like()))
    return set_pos(A.Op(name, arglist(ctx.arglist()), ctx=c), ctx)


def assignment(ctx):
    if ctx.assignment_regular() is not None:
        a = ctx.assignment_regular()
        var = integer_like(a.integer_like(0))
        idx = eval_int(str(a.INTEGER())) if a.INTEGER() is not None else None
        aop = a.assign_operator().getText()
        if a.value_of() is not None:
            rk, rhs = "valueof", integer_like(a.value_of().integer_like())
        else:
            rk, rhs = "int", integer_like(a.integer_like(1))
        return A.Assign("reg", var, idx, aop, rk, rhs)
    if ctx.assignment_clear() is not None:
        return A.Assign("clear", integer_like(ctx.assignment_clear().integer_like()))
    if ctx.assignment_initial() is not None:
        return A.Assign("init", integer_like(ctx.assignment_initial().integer_like()))
    if ctx.assignment_reset() is not None:
        a = ctx.assignment_reset()
        if a.DUNGEON_RESULT() is not None:
            return A.Assign("reset_dr")
        return A.Assign("reset_scn", integer_like(a.scn_var().integer_like()))
    if ctx.assignment_adv_log() is not None:
        return A.Assign("advlog", integer_like(ctx.assignment_adv_log().integer_like()))
    if ctx.assignment_dungeon_mode() is not None:
        a = ctx.assignment_dungeon_mode()
        return A.Assign("dmode", integer_like(a.integer_like(0)), integer_like(a.integer_like(1)))
    if ctx.assignment_scn() is not None:
        a = ctx.assignment_scn()
        return A.Assign("scn", integer_like(a.integer_like()), eval_int(str(a.INTEGER(0))), eval_int(str(a.INTEGER(1))))
    raise ReadError("assignment")


def simple_stmt(ctx):
    if ctx.operation() is not None:
        return operation(ctx.operation())
    if ctx.label() is not None:
        lab = ctx.label()
        return set_pos(A.Label(str(lab.IDENTIFIER()), "§" if lab.PARAGRAPH() is not None else "@"), ctx)
    if ctx.cntrl_stmt() is not None:
        return set_pos(A.Ctrl(ctx.cntrl_stmt().getText()), ctx)
    if ctx.jump() is not None:
        return set_pos(A.Jump(str(ctx.jump().IDENTIFIER())), ctx)
    if ctx.call() is not None:
        return set_pos(A.Call(str(ctx.call().IDENTIFIER())), ctx)
    if ctx.assignment() is not None:
        return set_pos(assignment(ctx.assignment()), ctx)
    raise ReadError("simple_stmt")


def stmts(ctxs):
    return [stmt(c) for c in ctxs]


def switch_header(ctx):
    if ctx.integer_like() is not None:
        return set_pos(A.SwitchHeader("var", integer_like(ctx.integer_like())), ctx)
    if ctx.operation() is not None:
        o = ctx.operation()
        c = None
        if o.inline_ctx() is not None:
            h = o.inline_ctx().ctx_header()
            c = (str(h.IDENTIFIER()), integer_like(h.integer_like()))
        return set_pos(A.SwitchHeader("opcall", str(o.IDENTIFIER()), tuple(arglist(o.arglist())), c), ctx)
    if ctx.switch_h_scn() is not None:
        h = ctx.switch_h_scn()
        return set_pos(A.SwitchHeader("scn", integer_like(h.scn_var().integer_like()), eval_int(str(h.INTEGER()))), ctx)
    if ctx.switch_h_random() is not None:
        return set_pos(A.SwitchHeader("random", integer_like(ctx.switch_h_random().integer_like())), ctx)
    if ctx.switch_h_dungeon_mode() is not None:
        return set_pos(A.SwitchHeader("dmode", integer_like(ctx.switch_h_dungeon_mode().integer_like())), ctx)
    if ctx.switch_h_sector() is not None:
        return set_pos(A.SwitchHeader("sector"), ctx)
    raise ReadError("switch_header")


def case_header(ctx):
    if ctx.integer_like() is not None:
        return set_pos(A.CaseHeader("val", integer_like(ctx.integer_like())), ctx)
    if ctx.case_h_menu() is not None:
        return set_pos(A.CaseHeader("menu", string(ctx.case_h_menu().string())), ctx)
    if ctx.case_h_menu2() is not None:
        return set_pos(A.CaseHeader("menu2", integer_like(ctx.case_h_menu2().integer_like())), ctx)
    if ctx.case_h_op() is not None:
        h = ctx.case_h_op()
        oper = conditional_operator(h.conditional_operator())
        if h.value_of() is not None:
            return set_pos(A.CaseHeader("op", oper, "valueof", integer_like(h.value_of().integer_like())), ctx)
        return set_pos(A.CaseHeader("op", oper, "int", integer_like(h.integer_like())), ctx)
    raise ReadError("case_header")


def case_items(ctx):
    """Children of a (message) switch in source order: list of (kind, header ctx|None, block ctx)."""
    out = []
    for ch in ctx.getChildren():
        n = type(ch).__name__
        if n == "Single_case_blockContext":
            out.append(("case", ch))
        elif n == "DefaultContext":
            out.append(("default", ch))
    return out


def stmt(ctx):
    if ctx.simple_stmt() is not None:
        return simple_stmt(ctx.simple_stmt())
    if ctx.ctx_block() is not None:
        c = ctx.ctx_block()
        h = c.ctx_header()
        inner = simple_stmt(c.simple_stmt())
        return set_pos(A.With(str(h.IDENTIFIER()), integer_like(h.integer_like()), inner), c)
    if ctx.if_block() is not None:
        b = ctx.if_block()
        first = A.IfBranch(b.NOT() is not None, [if_header(h) for h in b.if_header()], stmts(b.stmt()))
        set_pos(first, b)
        branches = [first]
        for e in b.elseif_block():
            br = A.IfBranch(e.NOT() is not None, [if_header(h) for h in e.if_header()], stmts(e.stmt()))
            set_pos(br, e)
            branches.append(br)
        eb = None
        node = A.If(branches, None)
        if b.else_block() is not None:
            eb = stmts(b.else_block().stmt())
            node = A.If(branches, eb)
            node.else_pos = (b.else_block().start.line - 1, b.else_block().start.column)
        return set_pos(node, b)
    if ctx.switch_block() is not None:
        b = ctx.switch_block()
        items = []
        for kind, c in case_items(b):
            if c.string() is not None:
                raise ReadError("string body in a regular switch")
            if kind == "case":
                it = A.SwitchItem(case_header(c.case_header()), stmts(c.stmt()))
            else:
                it = A.SwitchItem(None, stmts(c.stmt()))
            items.append(set_pos(it, c))
        return set_pos(A.Switch(switch_header(b.switch_header()), items), b)
    if ctx.message_switch_block() is not None:
        b = ctx.message_switch_block()
        kind = "message_SwitchTalk" if b.MESSAGE_SWITCH_TALK() is not None else "message_SwitchMonologue"
        cases = []
        default = None
        xp = []
        for k, c in case_items(b):
            if c.string() is None:
                raise ReadError("statement body in a message switch")
            xp.append((c.start.line - 1, c.start.column))
            if k == "case":
                ch = c.case_header()
                if ch.integer_like() is None:
                    raise ReadError("message switch case header")
                cases.append((integer_like(ch.integer_like()), string(c.string())))
            else:
                default = string(c.string())
        node = A.MsgSwitch(kind, integer_like(b.integer_like()), cases, default)
        node.xpos = xp
        return set_pos(node, b)
    if ctx.forever_block() is not None:
        b = ctx.forever_block()
        return set_pos(A.Forever(stmts(b.stmt())), b)
    if ctx.while_block() is not None:
        b = ctx.while_block()
        return set_pos(A.While(b.NOT() is not None, if_header(b.if_header()), stmts(b.stmt())), b)
    if ctx.for_block() is not None:
        b = ctx.for_block()
        return set_pos(A.For(simple_stmt(b.simple_stmt(0)), if_header(b.if_header()), simple_stmt(b.simple_stmt(1)),
                             stmts(b.stmt())), b)
    if ctx.macro_call() is not None:
        m = ctx.macro_call()
        return set_pos(A.MacroCall(str(m.MACRO_CALL())[1:], arglist(m.arglist())), m)
    raise ReadError("stmt")


def func_suite(ctx):
    if ctx.func_alias() is not None:
        return None
    return stmts(ctx.stmt())


def program(tree):
    routines = []
    macros = []
    imports = []
    for imp in tree.import_stmt():
        imports.append(eval_single_line(str(imp.STRING_LITERAL())))
    for ch in tree.getChildren():
        n = type(ch).__name__
        if n == "MacrodefContext":
            params = [str(v) for v in ch.VARIABLE()]
            macros.append(set_pos(A.Macro(str(ch.IDENTIFIER()), params, stmts(ch.func_suite().stmt())), ch))
        elif n == "FuncdefContext":
            if ch.coro_def() is not None:
                c = ch.coro_def()
                routines.append(set_pos(A.Routine("coro", None, func_suite(c.func_suite()), name=str(c.IDENTIFIER())), c))
            elif ch.simple_def() is not None:
                c = ch.simple_def()
                routines.append(set_pos(A.Routine("def", eval_int(str(c.INTEGER())), func_suite(c.func_suite())), c))
            else:
                c = ch.for_target_def()
                t = c.for_target_def_target()
                if t.FOR_TARGET() is not None:
                    kind = str(t.FOR_TARGET())[4:]
                    legacy = True
                else:
                    kind = str(t.IDENTIFIER())
                    legacy = False
                routines.append(set_pos(A.Routine("for", eval_int(str(c.INTEGER())), func_suite(c.func_suite()),
                                                  target_kind=kind, target=integer_like(c.integer_like()), legacy=legacy), c))
    return A.Program(routines, macros, imports)


def read_program(text):
    return program(parse(text))
