"""G-ssb: exhaustive enumeration of SSB routine sets (shapes) and their materialisation as op objects.

A shape is a tuple of routines; a routine is a tuple of (kind, target) with target a *global* op index
(or None).  Kinds: op ctx sw case br call jump ret end hold.  Shapes are seed independent; the seed
only rotates which opcode names / parameters instantiate them.
"""
from __future__ import annotations

import itertools

from . import lts

JUMPING = ("br", "case", "call", "jump")
STOPS = ("ret", "end", "hold")
ALL_KINDS = ("op", "br", "jump", "ret", "end", "hold", "call", "sw", "case", "ctx")


def shapes(kinds, max_ops, max_routines=1, wellformed=True, min_ops=1, allow_empty_routines=True):
    for k in range(min_ops, max_ops + 1):
        for seq in itertools.product(kinds, repeat=k):
            jpos = [i for i, kd in enumerate(seq) if kd in JUMPING]
            for targets in itertools.product(range(k), repeat=len(jpos)):
                flat = [(kd, None) for kd in seq]
                for i, t in zip(jpos, targets):
                    flat[i] = (seq[i], t)
                if has_jump_cycle(flat):
                    continue
                for nr in range(1, max_routines + 1):
                    for cuts in itertools.combinations_with_replacement(range(1, k + 1), nr - 1):
                        bounds = (0,) + cuts + (k,)
                        routines = tuple(tuple(flat[bounds[i]:bounds[i + 1]]) for i in range(nr))
                        if not allow_empty_routines and any(len(r) == 0 for r in routines):
                            continue
                        if len(routines[0]) == 0:
                            continue
                        if nr > 1 and len(routines[-1]) == 0 and len(routines[-2]) == 0 and False:
                            continue
                        if wellformed and not is_wellformed(routines):
                            continue
                        yield routines


def has_jump_cycle(flat):
    for i, (kd, t) in enumerate(flat):
        if kd != "jump":
            continue
        seen = {i}
        cur = t
        while flat[cur][0] == "jump":
            if cur in seen:
                return True
            seen.add(cur)
            cur = flat[cur][1]
    return False


def is_wellformed(routines):
    """Every path from every routine entry ends in a flow-ending op (never runs past a routine's last op);
    a context op is followed by an op of the same routine that is not itself a jump target-only artefact."""
    flat = [x for r in routines for x in r]
    n = len(flat)
    last = set()
    starts = []
    pos = 0
    for r in routines:
        if r:
            starts.append(pos)
            last.add(pos + len(r) - 1)
        pos += len(r)
    seen = set()
    stack = list(starts)
    while stack:
        i = stack.pop()
        if i in seen:
            continue
        seen.add(i)
        kd, t = flat[i]
        if kd in STOPS:
            continue
        if kd == "jump":
            stack.append(t)
            continue
        # continues with the next op (and maybe the target)
        if i in last:
            return False
        stack.append(i + 1)
        if kd in JUMPING:
            stack.append(t)
        if kd == "ctx":
            # the op under a context must be a plain operation or a stop op (as with-blocks allow)
            if flat[i + 1][0] in ("ctx", "sw", "case", "br"):
                return False
    # context ops anywhere (even unreachable) need a successor in their routine
    pos = 0
    for r in routines:
        for j, (kd, t) in enumerate(r):
            if kd == "ctx" and (j + 1 >= len(r) or r[j + 1][0] in ("ctx", "sw", "case", "br")):
                return False
        pos += len(r)
    return True


# ------------------------------------------------------------------ materialisation
BR_FORMS = [
    ("BranchDebug", lambda k: [1]),
    ("Branch", lambda k: [_c(f"$VAR_{k}"), k]),
    ("BranchBit", lambda k: [_c(f"$BITS_{k}"), k % 8]),
    ("BranchVariation", lambda k: [0]),
    ("BranchValue", lambda k: [_c(f"$VAR_{k}"), 3, k + 2]),
    ("BranchPerformance", lambda k: [k % 5, 1]),
    ("BranchVariable", lambda k: [_c(f"$VAR_{k}"), 5, _c(f"$OTHER_{k}")]),
    ("BranchScenarioNow", lambda k: [_c(f"$SCN_{k}"), k, 1]),
    ("BranchEdit", lambda k: [1]),
    ("BranchScenarioBefore", lambda k: [_c(f"$SCN_{k}"), 2, k]),
    ("BranchPerformance", lambda k: [k % 5, 0]),
    ("BranchDebug", lambda k: [0]),
    ("BranchScenarioNowAfter", lambda k: [_c(f"$SCN_{k}"), 2, k]),
]
SW_FORMS = [
    ("Switch", lambda k: [_c(f"$SW_{k}")]),
    ("SwitchRandom", lambda k: [k + 2]),
    ("SwitchScenario", lambda k: [_c(f"$SCN_{k}")]),
    ("SwitchSector", lambda k: []),
    ("SwitchDungeonMode", lambda k: [_c(f"DUNGEON_{k}")]),
    ("message_Menu", lambda k: [k]),
    ("SwitchScenarioLevel", lambda k: [_c(f"$SCN_{k}")]),
    ("ProcessSpecial", lambda k: [_c("PROC"), k, 0]),
]
CASE_FORMS = [
    ("Case", lambda k: [k]),
    ("CaseValue", lambda k: [3, k]),
    ("Case", lambda k: [_c(f"CASE_{k}")]),
    ("CaseVariable", lambda k: [4, _c(f"$CV_{k}")]),
    ("CaseValue", lambda k: [2, k]),
]
CTX_FORMS = [("lives", lambda k: [k + 1]), ("object", lambda k: [_c(f"OBJ_{k}")]), ("performer", lambda k: [k])]


def _c(name):
    from explorerscript.ssb_converting.ssb_data_types import SsbOpParamConstant
    return SsbOpParamConstant(name)


def materialize(routines, seed=0, info_variant=0, gap=True):
    """-> (routine_ops, routine_infos, named_coroutines list indexed by routine)."""
    from explorerscript.ssb_converting.ssb_data_types import (SsbOperation, SsbOpCode, SsbRoutineInfo, SsbRoutineType)
    flat = [x for r in routines for x in r]
    # first pass: names and params (without jump), offsets
    protos = []
    off = 2 if gap else 0
    counters = {}
    for i, (kd, t) in enumerate(flat):
        k = counters.get(kd, 0)
        counters[kd] = k + 1
        if kd == "op":
            name, params = f"op{i}", ([k] if k % 2 else [])
        elif kd == "br":
            name, f = BR_FORMS[(seed + k) % len(BR_FORMS)]
            params = f(k)
        elif kd == "sw":
            name, f = SW_FORMS[(seed + k) % len(SW_FORMS)]
            params = f(k)
        elif kd == "case":
            name, f = CASE_FORMS[(seed + k) % len(CASE_FORMS)]
            params = f(k)
        elif kd == "ctx":
            name, f = CTX_FORMS[(seed + k) % len(CTX_FORMS)]
            params = f(k)
        elif kd == "call":
            name, params = "Call", []
        elif kd == "jump":
            name, params = "Jump", []
        elif kd == "ret":
            name, params = "Return", []
        elif kd == "end":
            name, params = "End", []
        elif kd == "hold":
            name, params = "Hold", []
        else:
            raise ValueError(kd)
        protos.append((name, params, off))
        off += (1 + len(params) + (1 if kd in JUMPING else 0)) if gap else 1
    ops_flat = []
    for i, (kd, t) in enumerate(flat):
        name, params, off = protos[i]
        params = list(params)
        if kd in JUMPING:
            params.insert(lts.JUMP_INDEX[name], protos[t][2])
        ops_flat.append(SsbOperation(off, SsbOpCode(-1, name), params))
    routine_ops = []
    pos = 0
    for r in routines:
        routine_ops.append(ops_flat[pos:pos + len(r)])
        pos += len(r)
    infos = []
    coros = []
    for ri in range(len(routines)):
        v = (info_variant + ri) % 5
        if info_variant == 99:
            infos.append(SsbRoutineInfo(SsbRoutineType.COROUTINE, 0))
            coros.append(f"CORO_{ri}")
            continue
        coros.append(None)
        if v == 0:
            infos.append(SsbRoutineInfo(SsbRoutineType.GENERIC, 0))
        elif v == 1:
            infos.append(SsbRoutineInfo(SsbRoutineType.ACTOR, 3 + ri))
        elif v == 2:
            infos.append(SsbRoutineInfo(SsbRoutineType.OBJECT, -1, f"OBJECT_{ri}"))
        elif v == 3:
            infos.append(SsbRoutineInfo(SsbRoutineType.PERFORMER, 0))
        else:
            infos.append(SsbRoutineInfo(SsbRoutineType.ACTOR, -1, f"ACTOR_{ri}"))
    return routine_ops, infos, coros


def shape_stats(routines):
    flat = [x for r in routines for x in r]
    return {"ops": len(flat), "tests": sum(1 for k, _ in flat if k in ("br", "case", "call")),
            "jumps": sum(1 for k, _ in flat if k == "jump"), "routines": len(routines)}
