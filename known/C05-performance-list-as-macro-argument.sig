f8cd193d958053d3 differs-from-inlined-program
